package vrt

import (
	"io"
	"encoding/json"
	"errors"
	"io/fs"
	"os"
	"path/filepath"
	"sort"
	"strings"
	"sync"
	"syscall"
	"time"
)

// simfs: the in-memory disk under the generator. Paths below Root live only in memory; every
// other path is read through to the real file system (schema inputs) and can never be mutated: a
// mutating operation outside Root is refused, recorded as an escape, and nothing touches the real
// disk. Every mutating operation is numbered and logged; faults are addressed by that number.

type FSOp struct {
	Seq   int    `json:"seq"`
	Op    string `json:"op"` // write mkdir remove rename
	Path  string `json:"path"`
	Bytes int    `json:"bytes,omitempty"`
	Err   string `json:"err,omitempty"`
	Torn  int    `json:"torn,omitempty"` // bytes that landed of a torn write
}

type FSFault struct {
	Kind string `json:"kind"` // eio | enospc | eacces | torn | crash
	AtOp int    `json:"at_op"` // 1-based index of the mutating operation
}

type SimFS struct {
	mu      sync.Mutex
	Root    string
	files   map[string][]byte
	dirs    map[string]bool
	links   map[string]string // symbolic links: path -> target (absolute, or relative to the link's directory)
	Log     []FSOp
	nmut    int
	Fault   *FSFault
	crashed bool
	Escapes []string // mutating operations attempted outside Root
	Fired   map[string]int
}

// FS is the active simulated disk (nil: rewritten code uses the real one).
var FS *SimFS

func NewSimFS(root string) *SimFS {
	f := &SimFS{Root: filepath.Clean(root), files: map[string][]byte{}, dirs: map[string]bool{}, links: map[string]string{}, Fired: map[string]int{}}
	f.dirs[f.Root] = true
	return f
}

func (f *SimFS) inside(p string) bool {
	p = filepath.Clean(p)
	return p == f.Root || strings.HasPrefix(p, f.Root+string(os.PathSeparator))
}

func abs(p string) string {
	if !filepath.IsAbs(p) {
		if wd, err := os.Getwd(); err == nil {
			p = filepath.Join(wd, p)
		}
	}
	return filepath.Clean(p)
}

type fsSnapshot struct {
	Root  string            `json:"root"`
	Files map[string][]byte `json:"files"`
	Dirs  []string          `json:"dirs"`
	Links map[string]string `json:"links,omitempty"`
}

func (f *SimFS) Snapshot() []byte {
	f.mu.Lock()
	defer f.mu.Unlock()
	s := fsSnapshot{Root: f.Root, Files: f.files, Links: f.links}
	for d := range f.dirs {
		s.Dirs = append(s.Dirs, d)
	}
	sort.Strings(s.Dirs)
	b, _ := json.Marshal(s)
	return b
}

func LoadSimFS(b []byte) (*SimFS, error) {
	var s fsSnapshot
	if err := json.Unmarshal(b, &s); err != nil {
		return nil, err
	}
	f := NewSimFS(s.Root)
	for k, v := range s.Files {
		f.files[k] = v
	}
	for _, d := range s.Dirs {
		f.dirs[d] = true
	}
	for k, v := range s.Links {
		f.links[k] = v
	}
	return f, nil
}

// Tree returns a copy of every simulated file (path -> content).
func (f *SimFS) Tree() map[string][]byte {
	f.mu.Lock()
	defer f.mu.Unlock()
	out := make(map[string][]byte, len(f.files))
	for k, v := range f.files {
		out[k] = v
	}
	for k, v := range f.links {
		out[k] = []byte(SymlinkContentPrefix + v) // a link is an entry of its directory like any file
	}
	return out
}

// SymlinkContentPrefix marks symbolic links in Tree().
const SymlinkContentPrefix = "\x00symlink -> "

// PlantLink creates a symbolic link directly (harness set-up; not logged, not faulted).
func (f *SimFS) PlantLink(path, target string) {
	f.mu.Lock()
	defer f.mu.Unlock()
	path = filepath.Clean(path)
	for d := filepath.Dir(path); f.inside(d); d = filepath.Dir(d) {
		f.dirs[d] = true
		if d == f.Root {
			break
		}
	}
	f.links[path] = target
}

// Unplant removes a file or link directly (harness set-up).
func (f *SimFS) Unplant(path string) {
	f.mu.Lock()
	defer f.mu.Unlock()
	delete(f.files, filepath.Clean(path))
	delete(f.links, filepath.Clean(path))
}

// resolve follows symbolic links that live inside Root: every intermediate component, and the last
// one if followLast. The result may lie outside Root (a link may point anywhere). Caller holds f.mu.
func (f *SimFS) resolve(p string, followLast bool) string {
	for hops := 0; hops < 40 && len(f.links) > 0 && f.inside(p); hops++ {
		comps := strings.Split(strings.Trim(strings.TrimPrefix(p, f.Root), string(os.PathSeparator)), string(os.PathSeparator))
		cur := f.Root
		changed := false
		for i, c := range comps {
			if c == "" {
				continue
			}
			next := cur + string(os.PathSeparator) + c
			if t, ok := f.links[next]; ok && (i < len(comps)-1 || followLast) {
				if !filepath.IsAbs(t) {
					t = filepath.Join(cur, t)
				}
				p = filepath.Join(append([]string{t}, comps[i+1:]...)...)
				changed = true
				break
			}
			cur = next
		}
		if !changed {
			return p
		}
	}
	if len(f.links) > 0 && f.inside(p) {
		return f.Root + eloopMarker // more than 40 links followed: every use of the path fails with ELOOP
	}
	return p
}

const eloopMarker = "/\x00eloop/x"

// missing is the error for a path that does not exist: ENOTDIR when one of its ancestors is a regular file.
func (f *SimFS) missing(op, name, p string) error {
	if strings.HasSuffix(p, eloopMarker) {
		return &fs.PathError{Op: op, Path: name, Err: syscall.ELOOP}
	}
	for d := filepath.Dir(p); f.inside(d) && d != f.Root; d = filepath.Dir(d) {
		if _, isFile := f.files[d]; isFile {
			return &fs.PathError{Op: op, Path: name, Err: syscall.ENOTDIR}
		}
	}
	return &fs.PathError{Op: op, Path: name, Err: fs.ErrNotExist}
}

// locate turns a name into its absolute location with symbolic links resolved.
func (f *SimFS) locate(name string, followLast bool) string {
	p := abs(name)
	f.mu.Lock()
	defer f.mu.Unlock()
	return f.resolve(p, followLast)
}

func (f *SimFS) DirList() []string {
	f.mu.Lock()
	defer f.mu.Unlock()
	var out []string
	for d := range f.dirs {
		out = append(out, d)
	}
	sort.Strings(out)
	return out
}

// Plant writes a file directly (harness set-up; not logged, not faulted).
func (f *SimFS) Plant(path string, data []byte) {
	f.mu.Lock()
	defer f.mu.Unlock()
	path = filepath.Clean(path)
	for d := filepath.Dir(path); f.inside(d); d = filepath.Dir(d) {
		f.dirs[d] = true
		if d == f.Root {
			break
		}
	}
	f.files[path] = append([]byte{}, data...)
}

func (f *SimFS) PlantDir(path string) {
	f.mu.Lock()
	defer f.mu.Unlock()
	for d := filepath.Clean(path); f.inside(d); d = filepath.Dir(d) {
		f.dirs[d] = true
		if d == f.Root {
			break
		}
	}
}

func (f *SimFS) MutatingOps() int { f.mu.Lock(); defer f.mu.Unlock(); return f.nmut }

// mutate numbers the operation and applies the fault plan. It returns (proceed, tornBytes, error).
func (f *SimFS) mutate(op, path string, n int) (bool, int, error) {
	f.nmut++
	rec := FSOp{Seq: f.nmut, Op: op, Path: path, Bytes: n}
	var err error
	torn := -1
	if f.crashed {
		err = &fs.PathError{Op: op, Path: path, Err: syscall.EIO}
		rec.Err = "crashed"
	} else if f.Fault != nil && f.Fault.AtOp == f.nmut {
		f.Fired[f.Fault.Kind]++
		switch f.Fault.Kind {
		case "eio":
			err = &fs.PathError{Op: op, Path: path, Err: syscall.EIO}
		case "enospc":
			err = &fs.PathError{Op: op, Path: path, Err: syscall.ENOSPC}
		case "eacces":
			err = &fs.PathError{Op: op, Path: path, Err: syscall.EACCES}
		case "torn":
			err = &fs.PathError{Op: op, Path: path, Err: syscall.ENOSPC}
			if op == "write" {
				torn = n / 2
				rec.Torn = torn
			}
		case "crash":
			f.crashed = true
			err = &fs.PathError{Op: op, Path: path, Err: syscall.EIO}
		}
		if err != nil {
			rec.Err = f.Fault.Kind
		}
	}
	f.Log = append(f.Log, rec)
	return err == nil, torn, err
}

func (f *SimFS) escape(op, path string) error {
	f.Escapes = append(f.Escapes, op+" "+path)
	return &fs.PathError{Op: op, Path: path, Err: syscall.EROFS}
}

// ---- entry points used by rewritten code ----

func FSReadFile(name string) ([]byte, error) {
	f := FS
	if f == nil {
		return os.ReadFile(name)
	}
	Yield("simfs.read")
	p := f.locate(name, true)
	if !f.inside(p) {
		return os.ReadFile(p)
	}
	f.mu.Lock()
	defer f.mu.Unlock()
	if b, ok := f.files[p]; ok {
		return append([]byte{}, b...), nil
	}
	if f.dirs[p] {
		return nil, &fs.PathError{Op: "read", Path: name, Err: syscall.EISDIR}
	}
	return nil, f.missing("open", name, p)
}

func FSWriteFile(name string, data []byte, perm os.FileMode) error {
	f := FS
	if f == nil {
		return os.WriteFile(name, data, perm)
	}
	Yield("simfs.write")
	p := f.locate(name, true)
	f.mu.Lock()
	defer f.mu.Unlock()
	if !f.inside(p) {
		return f.escape("write", p)
	}
	if !f.dirs[filepath.Dir(p)] {
		return f.missing("open", name, p)
	}
	if f.dirs[p] {
		return &fs.PathError{Op: "open", Path: name, Err: syscall.EISDIR}
	}
	ok, torn, err := f.mutate("write", p, len(data))
	if torn >= 0 {
		f.files[p] = append([]byte{}, data[:torn]...) // a prefix landed, then the error
	}
	if !ok {
		return err
	}
	f.files[p] = append([]byte{}, data...)
	return nil
}

func FSMkdir(name string, perm os.FileMode) error {
	f := FS
	if f == nil {
		return os.Mkdir(name, perm)
	}
	Yield("simfs.mkdir")
	p := f.locate(name, false)
	f.mu.Lock()
	defer f.mu.Unlock()
	if _, isLink := f.links[p]; isLink {
		return &fs.PathError{Op: "mkdir", Path: name, Err: fs.ErrExist}
	}
	if !f.inside(p) {
		if st, err := os.Stat(p); err == nil && st.IsDir() {
			return &fs.PathError{Op: "mkdir", Path: name, Err: fs.ErrExist}
		}
		return f.escape("mkdir", p)
	}
	if f.dirs[p] {
		return &fs.PathError{Op: "mkdir", Path: name, Err: fs.ErrExist}
	}
	if _, isFile := f.files[p]; isFile {
		return &fs.PathError{Op: "mkdir", Path: name, Err: fs.ErrExist}
	}
	if !f.dirs[filepath.Dir(p)] {
		return f.missing("mkdir", name, p)
	}
	if ok, _, err := f.mutate("mkdir", p, 0); !ok {
		return err
	}
	f.dirs[p] = true
	return nil
}

func FSMkdirAll(name string, perm os.FileMode) error {
	f := FS
	if f == nil {
		return os.MkdirAll(name, perm)
	}
	Yield("simfs.mkdirall")
	if p := f.locate(name, true); !f.inside(p) {
		if st, err := os.Stat(p); err == nil && st.IsDir() {
			return nil
		}
		f.mu.Lock()
		defer f.mu.Unlock()
		return f.escape("mkdir", p)
	}
	return f.mkdirAll(filepath.Clean(name), perm)
}

// mkdirAll is os.MkdirAll's algorithm over the simulated primitives (so that links, files in the way and
// faults at each created level behave as they do on a real disk).
func (f *SimFS) mkdirAll(path string, perm os.FileMode) error {
	if st, err := fsStat(path, true); err == nil {
		if st.IsDir() {
			return nil
		}
		return &fs.PathError{Op: "mkdir", Path: path, Err: syscall.ENOTDIR}
	}
	if parent := filepath.Dir(path); parent != path && f.inside(abs(parent)) && abs(parent) != f.Root {
		if err := f.mkdirAll(parent, perm); err != nil {
			return err
		}
	}
	err := FSMkdir(path, perm)
	if err != nil {
		if st, err1 := fsStat(path, false); err1 == nil && st.IsDir() {
			return nil
		}
		return err
	}
	return nil
}

type simInfo struct {
	name string
	size int64
	dir  bool
	link bool
}

func (i simInfo) Name() string { return i.name }
func (i simInfo) Size() int64  { return i.size }
func (i simInfo) Mode() fs.FileMode {
	if i.link {
		return fs.ModeSymlink | 0o777
	}
	if i.dir {
		return fs.ModeDir | 0o755
	}
	return 0o644
}
func (i simInfo) ModTime() time.Time         { return time.Time{} }
func (i simInfo) IsDir() bool                { return i.dir }
func (i simInfo) Sys() any                   { return nil }
func (i simInfo) Type() fs.FileMode          { return i.Mode().Type() }
func (i simInfo) Info() (fs.FileInfo, error) { return i, nil }

func (f *SimFS) children(p string) []simInfo {
	seen := map[string]simInfo{}
	prefix := p + string(os.PathSeparator)
	for k, v := range f.files {
		if strings.HasPrefix(k, prefix) && !strings.Contains(k[len(prefix):], string(os.PathSeparator)) {
			seen[k[len(prefix):]] = simInfo{name: k[len(prefix):], size: int64(len(v))}
		}
	}
	for k := range f.dirs {
		if strings.HasPrefix(k, prefix) && !strings.Contains(k[len(prefix):], string(os.PathSeparator)) {
			seen[k[len(prefix):]] = simInfo{name: k[len(prefix):], dir: true}
		}
	}
	for k, v := range f.links {
		if strings.HasPrefix(k, prefix) && !strings.Contains(k[len(prefix):], string(os.PathSeparator)) {
			seen[k[len(prefix):]] = simInfo{name: k[len(prefix):], size: int64(len(v)), link: true}
		}
	}
	out := make([]simInfo, 0, len(seen))
	for _, v := range seen {
		out = append(out, v)
	}
	// os.ReadDir and filepath.Walk document lexical order: shuffling it would be an illegal environment
	sort.Slice(out, func(i, j int) bool { return out[i].name < out[j].name })
	return out
}

func FSReadDir(name string) ([]os.DirEntry, error) {
	f := FS
	if f == nil {
		return os.ReadDir(name)
	}
	Yield("simfs.readdir")
	p := f.locate(name, true)
	if !f.inside(p) {
		return os.ReadDir(p)
	}
	f.mu.Lock()
	defer f.mu.Unlock()
	if !f.dirs[p] {
		if _, isFile := f.files[p]; isFile {
			return nil, &fs.PathError{Op: "readdir", Path: name, Err: syscall.ENOTDIR}
		}
		return nil, f.missing("open", name, p)
	}
	var out []os.DirEntry
	for _, c := range f.children(p) {
		out = append(out, c)
	}
	return out, nil
}

func FSReadDirInfo(name string) ([]fs.FileInfo, error) {
	es, err := FSReadDir(name)
	if err != nil {
		return nil, err
	}
	var out []fs.FileInfo
	for _, e := range es {
		i, _ := e.Info()
		out = append(out, i)
	}
	return out, nil
}

func FSRemove(name string) error {
	f := FS
	if f == nil {
		return os.Remove(name)
	}
	Yield("simfs.remove")
	p := f.locate(name, false)
	f.mu.Lock()
	defer f.mu.Unlock()
	if !f.inside(p) {
		return f.escape("remove", p)
	}
	if _, ok := f.links[p]; ok { // removes the link, never what it points at
		if ok, _, err := f.mutate("remove", p, 0); !ok {
			return err
		}
		delete(f.links, p)
		return nil
	}
	if _, ok := f.files[p]; ok {
		if ok, _, err := f.mutate("remove", p, 0); !ok {
			return err
		}
		delete(f.files, p)
		return nil
	}
	if f.dirs[p] {
		if len(f.children(p)) > 0 {
			return &fs.PathError{Op: "remove", Path: name, Err: syscall.ENOTEMPTY}
		}
		if ok, _, err := f.mutate("rmdir", p, 0); !ok {
			return err
		}
		delete(f.dirs, p)
		return nil
	}
	return f.missing("remove", name, p)
}

func FSRemoveAll(name string) error {
	f := FS
	if f == nil {
		return os.RemoveAll(name)
	}
	p := f.locate(name, false)
	f.mu.Lock()
	defer f.mu.Unlock()
	if !f.inside(p) {
		return f.escape("removeall", p)
	}
	if err := f.missing("removeall", name, p); errors.Is(err, syscall.ENOTDIR) || errors.Is(err, syscall.ELOOP) {
		return err // a regular file on the way, as the real call reports
	}
	if ok, _, err := f.mutate("removeall", p, 0); !ok {
		return err
	}
	for k := range f.files {
		if k == p || strings.HasPrefix(k, p+string(os.PathSeparator)) {
			delete(f.files, k)
		}
	}
	for k := range f.dirs {
		if k == p || strings.HasPrefix(k, p+string(os.PathSeparator)) {
			delete(f.dirs, k)
		}
	}
	for k := range f.links { // links below p go; their targets are not followed
		if k == p || strings.HasPrefix(k, p+string(os.PathSeparator)) {
			delete(f.links, k)
		}
	}
	return nil
}

func FSRename(oldp, newp string) error {
	f := FS
	if f == nil {
		return os.Rename(oldp, newp)
	}
	a, b := f.locate(oldp, false), f.locate(newp, false)
	f.mu.Lock()
	defer f.mu.Unlock()
	if !f.inside(a) || !f.inside(b) {
		return f.escape("rename", a+" -> "+b)
	}
	if !f.dirs[filepath.Dir(b)] {
		return f.missing("rename", newp, b)
	}
	if f.dirs[b] {
		return &fs.PathError{Op: "rename", Path: newp, Err: syscall.EISDIR}
	}
	if a == b {
		if _, isFile := f.files[a]; isFile {
			return nil
		}
	}
	if t, isLink := f.links[a]; isLink {
		if a == b {
			return nil
		}
		if ok, _, err := f.mutate("rename", a+" -> "+b, 0); !ok {
			return err
		}
		delete(f.links, a)
		delete(f.files, b)
		f.links[b] = t
		return nil
	}
	data, ok := f.files[a]
	if !ok {
		return f.missing("rename", oldp, a)
	}
	if ok, _, err := f.mutate("rename", a+" -> "+b, len(data)); !ok {
		return err
	}
	delete(f.files, a)
	delete(f.links, b)
	f.files[b] = data
	return nil
}

func FSStat(name string) (fs.FileInfo, error) { return fsStat(name, true) }

// FSLstat does not follow a symbolic link in the last component.
func FSLstat(name string) (fs.FileInfo, error) { return fsStat(name, false) }

func FSSymlink(target, name string) error {
	f := FS
	if f == nil {
		return os.Symlink(target, name)
	}
	p := f.locate(name, false)
	f.mu.Lock()
	defer f.mu.Unlock()
	if !f.inside(p) {
		return f.escape("symlink", p)
	}
	_, isFile := f.files[p]
	_, isLink := f.links[p]
	if isFile || isLink || f.dirs[p] {
		return &fs.PathError{Op: "symlink", Path: name, Err: fs.ErrExist}
	}
	if !f.dirs[filepath.Dir(p)] {
		return f.missing("symlink", name, p)
	}
	if ok, _, err := f.mutate("symlink", p, 0); !ok {
		return err
	}
	f.links[p] = target
	return nil
}

func FSReadlink(name string) (string, error) {
	f := FS
	if f == nil {
		return os.Readlink(name)
	}
	p := f.locate(name, false)
	if !f.inside(p) {
		return os.Readlink(p)
	}
	f.mu.Lock()
	defer f.mu.Unlock()
	if t, ok := f.links[p]; ok {
		return t, nil
	}
	if _, isFile := f.files[p]; !isFile && !f.dirs[p] {
		return "", f.missing("readlink", name, p)
	}
	return "", &fs.PathError{Op: "readlink", Path: name, Err: syscall.EINVAL}
}

func FSEvalSymlinks(name string) (string, error) {
	f := FS
	if f == nil {
		return filepath.EvalSymlinks(name)
	}
	p := f.locate(name, true)
	if !f.inside(p) {
		return filepath.EvalSymlinks(p)
	}
	if _, err := fsStat(p, true); err != nil {
		return "", err
	}
	return p, nil
}

func fsStat(name string, follow bool) (fs.FileInfo, error) {
	f := FS
	if f == nil {
		if follow {
			return os.Stat(name)
		}
		return os.Lstat(name)
	}
	p := f.locate(name, follow)
	if !f.inside(p) {
		if follow {
			return os.Stat(p)
		}
		return os.Lstat(p)
	}
	f.mu.Lock()
	defer f.mu.Unlock()
	if t, ok := f.links[p]; ok && !follow {
		return simInfo{name: filepath.Base(p), size: int64(len(t)), link: true}, nil
	}
	if b, ok := f.files[p]; ok {
		return simInfo{name: filepath.Base(p), size: int64(len(b))}, nil
	}
	if f.dirs[p] {
		return simInfo{name: filepath.Base(p), dir: true}, nil
	}
	return nil, f.missing("stat", name, p)
}

// Create returns *os.File, which cannot live in memory; the generator uses it only
// for debug artefacts (CPU profile, graphviz dump) that the harness never enables. Inside Root they
// are refused so that a new use cannot silently bypass the simulated disk.
func FSCreate(name string) (*os.File, error) {
	if f := FS; f != nil {
		f.mu.Lock()
		defer f.mu.Unlock()
		return nil, f.escape("create(*os.File)", abs(name))
	}
	return os.Create(name)
}

// FSOpen is os.Open: a read-only File (in memory inside Root, the real file outside it).
func FSOpen(name string) (*File, error) { return FSOpenFile(name, os.O_RDONLY, 0) }

// File is what the rewritten os.OpenFile returns: an in-memory file inside Root (every Write is a numbered,
// faultable mutating operation that lands at once, as on a disk without a cache), the real file outside it
// (read-only opens only). It has the methods of *os.File that writers of generated code use; code that needs a
// genuine *os.File does not compile against it, which stops the build (exit 2) rather than bypass the disk.
type File struct {
	fs     *SimFS
	path   string // resolved, inside Root
	name   string
	off    int64
	flag   int
	closed bool
	real   *os.File
}

func FSOpenFile(name string, flag int, perm os.FileMode) (*File, error) {
	f := FS
	if f == nil {
		rf, err := os.OpenFile(name, flag, perm)
		if err != nil {
			return nil, err
		}
		return &File{real: rf, name: name}, nil
	}
	Yield("simfs.openfile")
	if flag&os.O_CREATE != 0 && flag&os.O_EXCL != 0 { // O_EXCL does not follow a link in the last component
		lp := f.locate(name, false)
		f.mu.Lock()
		_, isLink := f.links[lp]
		f.mu.Unlock()
		if isLink {
			return nil, &fs.PathError{Op: "open", Path: name, Err: fs.ErrExist}
		}
	}
	p := f.locate(name, true)
	writing := flag&(os.O_WRONLY|os.O_RDWR|os.O_CREATE|os.O_TRUNC|os.O_APPEND) != 0
	if !f.inside(p) {
		if writing {
			f.mu.Lock()
			defer f.mu.Unlock()
			return nil, f.escape("openfile", p)
		}
		rf, err := os.OpenFile(p, flag, perm)
		if err != nil {
			return nil, err
		}
		return &File{real: rf, name: name}, nil
	}
	f.mu.Lock()
	defer f.mu.Unlock()
	if f.dirs[p] {
		if flag&os.O_CREATE != 0 && flag&os.O_EXCL != 0 {
			return nil, &fs.PathError{Op: "open", Path: name, Err: fs.ErrExist}
		}
		if writing {
			return nil, &fs.PathError{Op: "open", Path: name, Err: syscall.EISDIR}
		}
		return nil, errors.New("simfs: opening a directory of the simulated root as a file is not supported")
	}
	_, exists := f.files[p]
	switch {
	case exists && flag&os.O_CREATE != 0 && flag&os.O_EXCL != 0:
		return nil, &fs.PathError{Op: "open", Path: name, Err: fs.ErrExist}
	case !exists && flag&os.O_CREATE == 0:
		return nil, f.missing("open", name, p)
	case !exists:
		if !f.dirs[filepath.Dir(p)] {
			return nil, f.missing("open", name, p)
		}
		if ok, _, err := f.mutate("create", p, 0); !ok {
			return nil, err
		}
		f.files[p] = []byte{}
	case flag&os.O_TRUNC != 0 && len(f.files[p]) > 0:
		if ok, _, err := f.mutate("truncate", p, 0); !ok {
			return nil, err
		}
		f.files[p] = []byte{}
	}
	return &File{fs: f, path: p, name: name, flag: flag}, nil
}

func (x *File) Name() string { return x.name }

func (x *File) Write(b []byte) (int, error) {
	if x.real != nil {
		return x.real.Write(b)
	}
	Yield("simfs.file.write")
	f := x.fs
	f.mu.Lock()
	defer f.mu.Unlock()
	if x.closed {
		return 0, &fs.PathError{Op: "write", Path: x.name, Err: os.ErrClosed}
	}
	if x.flag&(os.O_WRONLY|os.O_RDWR) == 0 {
		return 0, &fs.PathError{Op: "write", Path: x.name, Err: syscall.EBADF}
	}
	cur, ok := f.files[x.path]
	if !ok {
		cur = nil // unlinked meanwhile: the bytes go nowhere visible
	}
	if x.flag&os.O_APPEND != 0 {
		x.off = int64(len(cur))
	}
	proceed, torn, err := f.mutate("write", x.path, len(b))
	n := len(b)
	if !proceed {
		if torn < 0 {
			return 0, err
		}
		n = torn
	}
	end := x.off + int64(n)
	out := append([]byte{}, cur...)
	for int64(len(out)) < end {
		out = append(out, 0)
	}
	copy(out[x.off:end], b[:n])
	if ok {
		f.files[x.path] = out
	}
	x.off = end
	if !proceed {
		return n, err
	}
	return n, nil
}

func (x *File) WriteString(s string) (int, error) { return x.Write([]byte(s)) }

func (x *File) Read(b []byte) (int, error) {
	if x.real != nil {
		return x.real.Read(b)
	}
	f := x.fs
	f.mu.Lock()
	defer f.mu.Unlock()
	cur := f.files[x.path]
	if x.off >= int64(len(cur)) {
		return 0, io.EOF
	}
	n := copy(b, cur[x.off:])
	x.off += int64(n)
	return n, nil
}

func (x *File) Truncate(size int64) error {
	if x.real != nil {
		return x.real.Truncate(size)
	}
	f := x.fs
	f.mu.Lock()
	defer f.mu.Unlock()
	if ok, _, err := f.mutate("truncate", x.path, 0); !ok {
		return err
	}
	cur := append([]byte{}, f.files[x.path]...)
	for int64(len(cur)) < size {
		cur = append(cur, 0)
	}
	f.files[x.path] = cur[:size]
	return nil
}

func (x *File) Sync() error {
	if x.real != nil {
		return x.real.Sync()
	}
	return nil
}

func (x *File) Close() error {
	if x.real != nil {
		return x.real.Close()
	}
	if x.closed {
		return &fs.PathError{Op: "close", Path: x.name, Err: os.ErrClosed}
	}
	x.closed = true
	return nil
}

func (x *File) Stat() (fs.FileInfo, error) {
	if x.real != nil {
		return x.real.Stat()
	}
	return fsStat(x.path, true)
}

func (f *SimFS) walk(p string, info simInfo, fn filepath.WalkFunc) error {
	err := fn(p, info, nil)
	if !info.dir {
		return err
	}
	if err != nil {
		if err == filepath.SkipDir {
			return nil
		}
		return err
	}
	f.mu.Lock()
	kids := f.children(p)
	f.mu.Unlock()
	for _, k := range kids {
		if err := f.walk(filepath.Join(p, k.name), k, fn); err != nil {
			if err == filepath.SkipDir && k.dir {
				continue
			}
			if err == filepath.SkipDir {
				return nil
			}
			return err
		}
	}
	return nil
}

func FSWalk(root string, fn filepath.WalkFunc) error {
	f := FS
	if f == nil || !f.inside(abs(root)) {
		return filepath.Walk(root, fn)
	}
	p := f.locate(root, false)
	f.mu.Lock()
	b, isFile := f.files[p]
	isDir := f.dirs[p]
	t, isLink := f.links[p]
	f.mu.Unlock()
	switch {
	case isLink: // filepath.Walk does not follow symbolic links
		return fn(root, simInfo{name: filepath.Base(p), size: int64(len(t)), link: true}, nil)
	case isFile:
		return fn(root, simInfo{name: filepath.Base(p), size: int64(len(b))}, nil)
	case isDir:
		// keep the caller's spelling of the root, as filepath.Walk does
		return f.walkRooted(root, p, fn)
	}
	return fn(root, nil, &fs.PathError{Op: "lstat", Path: root, Err: fs.ErrNotExist})
}

func (f *SimFS) walkRooted(spelled, absRoot string, fn filepath.WalkFunc) error {
	return f.walk(absRoot, simInfo{name: filepath.Base(absRoot), dir: true}, func(path string, info fs.FileInfo, err error) error {
		rel, _ := filepath.Rel(absRoot, path)
		if rel == "." {
			return fn(spelled, info, err)
		}
		return fn(filepath.Join(spelled, rel), info, err)
	})
}

func FSWalkDir(root string, fn fs.WalkDirFunc) error {
	f := FS
	if f == nil || !f.inside(abs(root)) {
		return filepath.WalkDir(root, fn)
	}
	return FSWalk(root, func(path string, info fs.FileInfo, err error) error {
		if info == nil {
			return fn(path, nil, err)
		}
		return fn(path, info.(simInfo), err)
	})
}
