package vrt

import (
	"container/heap"
	"crypto/sha256"
	"encoding/hex"
	"fmt"
	"hash"
	"runtime"
	"sort"
	"strconv"
	"sync"
	"sync/atomic"
	"testing"
	"testing/synctest"
	"time"
)

// G is one simulated goroutine.
type G struct {
	id      int
	name    string
	grant   chan struct{}
	parked  bool
	site    string
	waitOn  any // non-nil: blocked on a simulated object, not a candidate
	exited  bool
	started bool
	lazy    bool // created for a timer callback; not live until started
	prio    int
	sim     *Sim
	timeout bool // set when a simulated wait ended by deadline
	holdUntil int // generation mode: not chosen before this step while other goroutines can run (delay-bounded scheduling)
	holdSeen  int
}

func (g *G) ID() int { return g.id }

// Strategy numbers (generation mode only; replay bypasses them).
const (
	StratUniform = iota
	StratPCT
	StratRunUntilBlocked
	StratRoundRobin
	NumStrategies
)

type Config struct {
	Strategy   int
	TimeAdvPct int           // probability (percent) of advancing the clock although something is runnable
	MaxSteps   int           // scheduling step budget
	Horizon    time.Duration // simulated idle time after which OnIdle is consulted
	KeepLog    bool
	CondRandom bool // Signal wakes a tape-chosen waiter instead of the oldest
	HoldPermille int // with YieldAfterUnlock: a goroutine that has just released a lock is, with this probability, held back for 5..84 steps while others can run (finds code that needs a lock-free window to stay undisturbed for long)
	YieldAfterUnlock bool // Unlock/RUnlock are scheduling points too: a goroutine can be preempted right after releasing a lock (exposes code that relies on nothing happening between an unlock and the next statement)
	PoolPolicy int  // see pool.go
	MapPolicy  int  // see maprange.go
	PCTChanges int
	PCTSpan    int
	NumCPU     int
	// MaxAdvanceExp bounds the clock-advance quantum chosen while goroutines are runnable to
	// 1µs<<MaxAdvanceExp (0: the default 23, i.e. ~8 s). Advancing the clock while something is runnable
	// models a slow or starved process; small values keep a fault-free configuration fault-free.
	MaxAdvanceExp int
	// OnStep runs on the scheduler goroutine at every quiescent point (all goroutines parked).
	OnStep func(s *Sim)
	// OnIdle runs when nothing is runnable, no simulator event is pending and Horizon of simulated
	// time has passed. Return true to keep going (after having changed something), false to end
	// the run with outcome "idle".
	OnIdle func(s *Sim) bool
}

type Violation struct {
	Class string `json:"class"`
	Msg   string `json:"message"`
	Step  int    `json:"step"`
}

type Result struct {
	Outcome    string // done | idle | budget | violation
	Steps      int
	LogHash    string
	Log        []string
	Violations []Violation
	SimTime    time.Duration
	Stats      map[string]int
	SchedSig   string // hash of the (goroutine,site) pick sequence + fired faults
	MaxRunnable int
	Leaked     int
}

type event struct {
	at  time.Duration
	seq uint64
	f   func()
}
type eventHeap []event

func (h eventHeap) Len() int { return len(h) }
func (h eventHeap) Less(i, j int) bool {
	if h[i].at != h[j].at {
		return h[i].at < h[j].at
	}
	return h[i].seq < h[j].seq
}
func (h eventHeap) Swap(i, j int) { h[i], h[j] = h[j], h[i] }
func (h *eventHeap) Push(x any)   { *h = append(*h, x.(event)) }
func (h *eventHeap) Pop() any     { o := *h; n := len(o); x := o[n-1]; *h = o[:n-1]; return x }

type Sim struct {
	mu     sync.Mutex
	cfg    Config
	Tape   *Tape
	byGoid map[int64]*G
	all    []*G
	wake   chan struct{}
	nextID int
	steps  int
	last   *G
	start  time.Time
	events eventHeap
	evSeq  uint64

	logH  hash.Hash
	sigH  hash.Hash
	lines []string

	viol     []Violation
	stopping bool
	stats    map[string]int
	maxRun   int

	conds map[any][]*G
	onces map[any]*onceState
	pools map[any]*poolState

	pctChange map[int]bool
	rrNext    int
	starved   time.Duration
	fair      bool
}

// Fair switches the rest of the run to a fair schedule: round-robin over the runnable goroutines
// and no clock advance while anything is runnable. Bounded-liveness oracles ("once faults stop,
// X happens within N simulated seconds") are only meaningful under such a schedule; an unfair
// scheduler that lets simulated minutes pass while one goroutine spins is itself a fault.
// Fair choices consume nothing from the tape, in generation and in replay alike.
func (s *Sim) Fair() {
	s.mu.Lock()
	s.fair = true
	s.mu.Unlock()
}

// Starved returns the simulated time the scheduler let pass although goroutines were runnable.
func (s *Sim) Starved() time.Duration { return s.starved }

// S is the active simulation (one per process at a time).
var S atomic.Pointer[Sim]

func goid() int64 {
	var buf [40]byte
	n := runtime.Stack(buf[:], false)
	// "goroutine 123 ["
	b := buf[10:n]
	i := 0
	for i < len(b) && b[i] != ' ' {
		i++
	}
	id, _ := strconv.ParseInt(string(b[:i]), 10, 64)
	return id
}

// cur returns the simulated goroutine the caller is, or nil (passthrough).
func cur() *G {
	s := S.Load()
	if s == nil {
		return nil
	}
	id := goid()
	s.mu.Lock()
	g := s.byGoid[id]
	s.mu.Unlock()
	return g
}

// Active reports whether the caller runs under a token scheduler.
func Active() bool { return cur() != nil }

// Cur returns the active simulation if the caller is one of its goroutines.
func Cur() *Sim {
	if g := cur(); g != nil {
		return g.sim
	}
	return nil
}

func (s *Sim) newG(name string) *G {
	g := &G{id: s.nextID, name: name, grant: make(chan struct{}), sim: s}
	s.nextID++
	if s.cfg.Strategy == StratPCT {
		g.prio = 1000 + s.Tape.raw(1000000)
	}
	s.all = append(s.all, g)
	return g
}

// Spawn is called by the parent (the token holder) right before a rewritten `go` statement.
func Spawn() *G {
	p := cur()
	if p == nil {
		return nil
	}
	s := p.sim
	s.mu.Lock()
	g := s.newG("")
	s.mu.Unlock()
	return g
}

// Start is the first statement of a simulated goroutine.
func Start(g *G) {
	if g == nil {
		return
	}
	s := g.sim
	s.mu.Lock()
	s.byGoid[goid()] = g
	g.started = true
	s.mu.Unlock()
	yield(g, "start")
}

// Exit is deferred directly (`defer vrt.Exit(g)`), so recover works here.
func Exit(g *G) {
	if g == nil {
		return
	}
	s := g.sim
	if r := recover(); r != nil {
		if _, ok := r.(abortRun); !ok {
			buf := make([]byte, 4096)
			buf = buf[:runtime.Stack(buf, false)]
			s.Fail("panic", fmt.Sprintf("goroutine g%d panicked: %v\n%s", g.id, r, buf))
		}
	}
	s.mu.Lock()
	g.exited = true
	delete(s.byGoid, goid())
	s.mu.Unlock()
	s.poke()
}

type abortRun struct{}

func (s *Sim) poke() {
	select {
	case s.wake <- struct{}{}:
	default:
	}
}

// Go starts f as a simulated goroutine (for harness code, which is not rewritten).
func Go(name string, f func()) {
	p := cur()
	if p == nil {
		go f()
		return
	}
	s := p.sim
	s.mu.Lock()
	g := s.newG(name)
	s.mu.Unlock()
	go func() { Start(g); defer Exit(g); f() }()
}

// WrapErr / Wrap register goroutines that a library starts on the program's behalf (errgroup).
func WrapErr(f func() error) func() error {
	g := Spawn()
	if g == nil {
		return f
	}
	return func() (err error) { Start(g); defer Exit(g); return f() }
}

// AfterFunc replaces time.AfterFunc in rewritten code: the callback is a simulated goroutine.
func AfterFunc(d time.Duration, f func()) *time.Timer {
	p := cur()
	if p == nil {
		return time.AfterFunc(d, f)
	}
	s := p.sim
	s.mu.Lock()
	g := s.newG("afterfunc")
	g.lazy = true
	s.mu.Unlock()
	return time.AfterFunc(d, func() { Start(g); defer Exit(g); f() })
}

func yield(g *G, site string) {
	s := g.sim
	s.mu.Lock()
	g.parked = true
	g.site = site
	s.mu.Unlock()
	s.poke()
	<-g.grant
}

// Yield is a scheduling point.
func Yield(site string) {
	if g := cur(); g != nil {
		yield(g, site)
	}
}

// AfterRecv wraps a receive that is part of a larger expression: a scheduling point right after the receive completed.
func AfterRecv[T any](v T, site string) T {
	if g := cur(); g != nil {
		yield(g, site)
	}
	return v
}

// block parks the caller until another goroutine or a simulator event clears g.waitOn.
func block(g *G, on any, site string) {
	s := g.sim
	s.mu.Lock()
	g.waitOn = on
	g.parked = true
	g.site = site
	s.mu.Unlock()
	s.poke()
	<-g.grant
}

// wakeAll clears waitOn for every goroutine blocked on obj.
func (s *Sim) wakeAll(obj any) {
	s.mu.Lock()
	for _, g := range s.all {
		if g.waitOn == obj {
			g.waitOn = nil
		}
	}
	s.mu.Unlock()
}

func (s *Sim) Now() time.Duration { return time.Since(s.start) }

// After schedules f on the scheduler goroutine at simulated time now+d. f must not block.
func (s *Sim) After(d time.Duration, f func()) {
	if d < 0 {
		d = 0
	}
	s.mu.Lock()
	s.evSeq++
	heap.Push(&s.events, event{at: s.Now() + d, seq: s.evSeq, f: f})
	s.mu.Unlock()
}

func (s *Sim) Logf(format string, a ...any) {
	line := fmt.Sprintf(format, a...)
	s.mu.Lock()
	fmt.Fprintf(s.logH, "%d %s\n", s.steps, line)
	if s.cfg.KeepLog {
		s.lines = append(s.lines, fmt.Sprintf("%d t=%v %s", s.steps, time.Since(s.start), line))
	}
	s.mu.Unlock()
}

// Notef records a human-readable line in the kept log only; it is not part of the event-log hash
// (used for the program's own log output, which may mention process-global counters).
func (s *Sim) Notef(format string, a ...any) {
	if !s.cfg.KeepLog {
		return
	}
	line := fmt.Sprintf(format, a...)
	s.mu.Lock()
	s.lines = append(s.lines, fmt.Sprintf("%d t=%v %s", s.steps, time.Since(s.start), line))
	s.mu.Unlock()
}

// Logf logs to the active simulation, if any.
func Logf(format string, a ...any) {
	if s := S.Load(); s != nil {
		s.Logf(format, a...)
	}
}

// Count bumps a named counter (fault fired / probe hit).
func (s *Sim) Count(name string) {
	s.mu.Lock()
	s.stats[name]++
	s.mu.Unlock()
}

// Fired bumps a fault counter and folds the fault into the schedule signature.
func (s *Sim) Fired(name string) {
	s.mu.Lock()
	s.stats["fault."+name]++
	fmt.Fprintf(s.sigH, "F:%s@%d\n", name, s.steps)
	s.mu.Unlock()
}

func Count(name string) {
	if s := S.Load(); s != nil {
		s.Count(name)
	}
}

func (s *Sim) Fail(class, msg string) {
	s.mu.Lock()
	s.viol = append(s.viol, Violation{Class: class, Msg: msg, Step: s.steps})
	s.stopping = true
	fmt.Fprintf(s.logH, "VIOLATION %s\n", class)
	if s.cfg.KeepLog {
		s.lines = append(s.lines, fmt.Sprintf("%d VIOLATION %s: %s", s.steps, class, msg))
	}
	s.mu.Unlock()
}

func (s *Sim) Failed() bool {
	s.mu.Lock()
	defer s.mu.Unlock()
	return len(s.viol) > 0
}

// Stop ends the run at the next scheduling point without a violation.
func (s *Sim) Stop() {
	s.mu.Lock()
	s.stopping = true
	s.mu.Unlock()
}

func (s *Sim) Steps() int { return s.steps }

// Live returns the number of simulated goroutines that have not exited.
func (s *Sim) Live() int {
	s.mu.Lock()
	defer s.mu.Unlock()
	n := 0
	for _, g := range s.all {
		if !g.exited && !(g.lazy && !g.started) {
			n++
		}
	}
	return n
}

// Describe lists live goroutines (for stuck reports).
func (s *Sim) Describe() string {
	s.mu.Lock()
	defer s.mu.Unlock()
	msg := ""
	for _, g := range s.all {
		if !g.exited && !(g.lazy && !g.started) {
			msg += fmt.Sprintf(" g%d%s@%s(parked=%v,wait=%v)", g.id, g.name, g.site, g.parked, g.waitOn != nil)
		}
	}
	return msg
}

func (s *Sim) runDueEvents() {
	for {
		s.mu.Lock()
		if len(s.events) == 0 || s.events[0].at > s.Now() {
			s.mu.Unlock()
			return
		}
		ev := heap.Pop(&s.events).(event)
		s.mu.Unlock()
		ev.f()
	}
}

func (s *Sim) nextEventIn() (time.Duration, bool) {
	s.mu.Lock()
	defer s.mu.Unlock()
	if len(s.events) == 0 {
		return 0, false
	}
	d := s.events[0].at - s.Now()
	if d < 0 {
		d = 0
	}
	return d, true
}

// choose returns the index into cands to run, or len(cands) for "advance the clock".
func (s *Sim) choose(cands []*G) int {
	n := len(cands)
	t := s.Tape
	s.mu.Lock()
	fair := s.fair
	s.mu.Unlock()
	if fair {
		idx, bestID := 0, -1
		for i, g := range cands {
			if g.id >= s.rrNext && (bestID < 0 || g.id < bestID) {
				bestID, idx = g.id, i
			}
		}
		if bestID < 0 {
			low := cands[0].id
			for i, g := range cands {
				if g.id <= low {
					low, idx = g.id, i
				}
			}
		}
		s.rrNext = cands[idx].id + 1
		return idx
	}
	if t.replay {
		return t.Next(n + 1)
	}
	idx := 0
	if s.cfg.HoldPermille > 0 {
		if l := s.last; l != nil && l.parked && l.holdSeen != s.steps && (l.site == "unlock" || l.site == "runlock") {
			l.holdSeen = s.steps
			if t.raw(1000) < s.cfg.HoldPermille {
				l.holdUntil = s.steps + 5 + t.raw(80)
				s.mu.Lock()
				s.stats["sched.holds_after_unlock"]++
				s.mu.Unlock()
			}
		}
		var free []int
		for i, g := range cands {
			if g.holdUntil <= s.steps {
				free = append(free, i)
			}
		}
		if len(free) > 0 && len(free) < n {
			idx = free[t.raw(len(free))]
			t.put(idx)
			return idx
		}
	}
	if s.cfg.TimeAdvPct > 0 && t.raw(100) < s.cfg.TimeAdvPct {
		idx = n
	} else {
		switch s.cfg.Strategy {
		case StratUniform:
			idx = t.raw(n)
		case StratPCT:
			if s.pctChange[s.steps] && s.last != nil {
				s.last.prio = -s.steps // lower than any initial priority, later changes lower still
			}
			best := 0
			for i, g := range cands {
				if g.prio > cands[best].prio {
					best = i
				}
			}
			idx = best
		case StratRunUntilBlocked:
			if cands[0] == s.last && t.raw(100) >= 5 {
				idx = 0
			} else {
				idx = t.raw(n)
			}
		case StratRoundRobin:
			idx = 0
			bestID := -1
			for i, g := range cands {
				if g.id >= s.rrNext && (bestID < 0 || g.id < bestID) {
					bestID = g.id
					idx = i
				}
			}
			if bestID < 0 {
				low := cands[0].id
				for i, g := range cands {
					if g.id <= low {
						low = g.id
						idx = i
					}
				}
			}
			s.rrNext = cands[idx].id + 1
		}
	}
	t.put(idx)
	return idx
}

func (s *Sim) advance() {
	// quantum: 1µs << k, k in [0,23], or (k==24) "to the next simulator event".
	maxK := s.cfg.MaxAdvanceExp
	if maxK <= 0 || maxK > 23 {
		maxK = 23
	}
	k := s.Tape.Next(25)
	if k < 24 && k > maxK {
		k = k % (maxK + 1)
	}
	var d time.Duration
	if k == 24 {
		var ok bool
		if d, ok = s.nextEventIn(); !ok {
			d = time.Millisecond
		}
	} else {
		d = time.Microsecond << uint(k)
		if ne, ok := s.nextEventIn(); ok && ne < d {
			d = ne
		}
	}
	if d <= 0 {
		d = time.Microsecond
	}
	s.mu.Lock()
	fmt.Fprintf(s.logH, "%d advance %v\n", s.steps, d)
	fmt.Fprintf(s.sigH, "T%d\n", k)
	if s.cfg.KeepLog {
		s.lines = append(s.lines, fmt.Sprintf("%d t=%v advance %v", s.steps, time.Since(s.start), d))
	}
	s.stats["sched.time_advance"]++
	s.starved += d
	if d >= time.Second {
		s.stats["fault.process_starved_1s_or_more"]++
	}
	s.mu.Unlock()
	time.Sleep(d)
}

func (s *Sim) loop() string {
	for {
		synctest.Wait()
		s.runDueEvents()
		if s.cfg.OnStep != nil {
			s.cfg.OnStep(s)
		}
		s.mu.Lock()
		var cands []*G
		live := 0
		for _, g := range s.all {
			if !g.exited && !(g.lazy && !g.started) {
				live++
			}
			if g.parked && g.waitOn == nil && !g.exited {
				cands = append(cands, g)
			}
		}
		stopping := s.stopping
		nviol := len(s.viol)
		s.mu.Unlock()
		if nviol > 0 {
			return "violation"
		}
		if stopping {
			return "stopped"
		}
		if live == 0 {
			return "done"
		}
		if s.steps >= s.cfg.MaxSteps {
			return "budget"
		}
		if len(cands) == 0 {
			d := s.cfg.Horizon
			ne, haveEv := s.nextEventIn()
			if haveEv && ne < d {
				d = ne
			}
			tm := time.NewTimer(d)
			select {
			case <-s.wake:
				tm.Stop()
				continue
			case <-tm.C:
			}
			if haveEv && ne <= d {
				continue // an event is due now
			}
			// idle for a whole horizon
			select {
			case <-s.wake:
				continue
			default:
			}
			s.Count("sched.idle_horizon")
			if s.cfg.OnIdle != nil && s.cfg.OnIdle(s) {
				continue
			}
			return "idle"
		}
		sort.Slice(cands, func(i, j int) bool {
			if (cands[i] == s.last) != (cands[j] == s.last) {
				return cands[i] == s.last
			}
			return cands[i].id < cands[j].id
		})
		if len(cands) > s.maxRun {
			s.maxRun = len(cands)
		}
		idx := s.choose(cands)
		if idx >= len(cands) {
			s.advance()
			continue
		}
		pick := cands[idx]
		s.mu.Lock()
		pick.parked = false
		s.steps++
		s.last = pick
		fmt.Fprintf(s.logH, "%d run g%d %s\n", s.steps, pick.id, pick.site)
		if len(cands) > 1 {
			fmt.Fprintf(s.sigH, "g%d@%s\n", pick.id, pick.site)
			s.stats["sched.contended_steps"]++
		}
		if s.cfg.KeepLog {
			s.lines = append(s.lines, fmt.Sprintf("%d t=%v run g%d%s %s (of %d)", s.steps, time.Since(s.start), pick.id, pick.name, pick.site, len(cands)))
		}
		s.mu.Unlock()
		pick.grant <- struct{}{}
	}
}

// Run executes root as goroutine g0 of a fresh simulation inside a synctest bubble and returns
// when every simulated goroutine has exited, the run was stopped, or it is stuck.
func Run(t *testing.T, cfg Config, tape *Tape, root func(s *Sim)) (res Result) {
	if cfg.MaxSteps == 0 {
		cfg.MaxSteps = 200000
	}
	if cfg.Horizon == 0 {
		cfg.Horizon = time.Hour
	}
	if cfg.NumCPU == 0 {
		cfg.NumCPU = 1
	}
	s := &Sim{cfg: cfg, Tape: tape, byGoid: map[int64]*G{},
		logH: sha256.New(), sigH: sha256.New(), stats: map[string]int{},
		conds: map[any][]*G{}, onces: map[any]*onceState{}, pools: map[any]*poolState{}}
	if cfg.Strategy == StratPCT && !tape.replay {
		s.pctChange = map[int]bool{}
		span := cfg.PCTSpan
		if span <= 0 {
			span = 200
		}
		for i := 0; i < cfg.PCTChanges; i++ {
			s.pctChange[1+tape.raw(span)] = true
		}
	}
	outcome := "bubble-panic"
	func() {
		defer func() {
			if r := recover(); r != nil {
				// end-of-bubble "blocked goroutines remain" after an aborted run, or a harness bug
				res.Leaked = 1
				if outcome == "bubble-panic" {
					s.viol = append(s.viol, Violation{Class: "machinery", Msg: fmt.Sprint("bubble panic: ", r)})
				}
			}
		}()
		synctest.Test(t, func(t *testing.T) {
			s.start = time.Now()
			s.wake = make(chan struct{}, 1) // must be a bubble channel, or waiting on it is not a durable block
			S.Store(s)
			defer S.Store(nil)
			g0 := s.newG("root")
			go func() { Start(g0); defer Exit(g0); root(s) }()
			outcome = s.loop()
			res.SimTime = s.Now()
		})
	}()
	S.Store(nil)
	res.Outcome = outcome
	res.Steps = s.steps
	res.LogHash = hex.EncodeToString(s.logH.Sum(nil))
	res.SchedSig = hex.EncodeToString(s.sigH.Sum(nil)[:8])
	res.Log = s.lines
	res.Violations = s.viol
	res.Stats = s.stats
	res.MaxRunnable = s.maxRun
	return res
}
