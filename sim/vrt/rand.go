package vrt

import (
	"math/rand/v2"
	"sync"
)

// Replacements for top-level pgregory.net/rand and math/rand functions in rewritten code: drawn
// from the run's tape under a simulation, from a process PRNG otherwise.

var fallbackMu sync.Mutex
var fallback = rand.New(rand.NewPCG(1, 2))

func rnd64() uint64 {
	if g := cur(); g != nil {
		return g.sim.Tape.Rand64()
	}
	fallbackMu.Lock()
	defer fallbackMu.Unlock()
	return fallback.Uint64()
}

func RandUint64() uint64 { return rnd64() }
func RandUint32() uint32 { return uint32(rnd64()) }
func RandInt63() int64   { return int64(rnd64() >> 1) }
func RandInt31() int32   { return int32(rnd64() >> 33) }
func RandInt() int       { return int(rnd64() >> 1) }
func RandUint64n(n uint64) uint64 {
	if n == 0 {
		panic("invalid argument to Uint64n")
	}
	if g := cur(); g != nil && n <= 1<<30 {
		return uint64(g.sim.Tape.Next(int(n)))
	}
	return rnd64() % n
}
func RandUint32n(n uint32) uint32 { return uint32(RandUint64n(uint64(n))) }
func RandIntn(n int) int {
	if n <= 0 {
		panic("invalid argument to Intn")
	}
	return int(RandUint64n(uint64(n)))
}
func RandInt63n(n int64) int64 { return int64(RandUint64n(uint64(n))) }
func RandInt31n(n int32) int32 { return int32(RandUint64n(uint64(n))) }
func RandFloat64() float64     { return float64(rnd64()>>11) / (1 << 53) }
func RandPerm(n int) []int {
	p := make([]int, n)
	for i := range p {
		p[i] = i
	}
	for i := n - 1; i > 0; i-- {
		j := RandIntn(i + 1)
		p[i], p[j] = p[j], p[i]
	}
	return p
}
func RandShuffle(n int, swap func(i, j int)) {
	for i := n - 1; i > 0; i-- {
		swap(i, RandIntn(i+1))
	}
}

// NumCPU replaces runtime.NumCPU in rewritten generator code.
func NumCPU() int {
	if g := cur(); g != nil {
		return g.sim.cfg.NumCPU
	}
	return 1
}

// GOMAXPROCS replaces runtime.GOMAXPROCS in rewritten generator code: a query (n < 1) returns the simulated
// width; a setting is ignored and returns the simulated width as the previous value.
func GOMAXPROCS(n int) int { return NumCPU() }
