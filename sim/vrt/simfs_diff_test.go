package vrt

import (
	"errors"
	"fmt"
	"io/fs"
	"math/rand/v2"
	"os"
	"path/filepath"
	"sort"
	"strconv"
	"strings"
	"testing"
)

// Differential self-test of the simulated disk: seeded operation sequences are applied to a real
// temporary directory through package os and to a SimFS through the FS* entry points the rewritten
// generator uses; every result (error class, content, listing with entry types) must agree. This is
// what entitles the C15/C16 checks to call the disk "simulated" rather than "invented".

func errClass(err error) string {
	switch {
	case err == nil:
		return "ok"
	case errors.Is(err, fs.ErrNotExist):
		return "notexist"
	case errors.Is(err, fs.ErrExist):
		return "exist"
	}
	return "error"
}

func listing(es []os.DirEntry) string {
	var out []string
	for _, e := range es {
		t := "f"
		if e.IsDir() {
			t = "d"
		} else if e.Type()&fs.ModeSymlink != 0 {
			t = "l"
		}
		out = append(out, t+":"+e.Name())
	}
	return strings.Join(out, ",")
}

func TestSimFSAgainstRealDisk(t *testing.T) {
	seeds := 400
	if n, err := strconv.Atoi(os.Getenv("VERIF_SIMFS_SEEDS")); err == nil {
		seeds = n
	}
	if testing.Short() {
		seeds = 50
	}
	names := []string{"a", "b", "c", "d1", "d2", "l1", "l2"}
	for seed := 0; seed < seeds; seed++ {
		r := rand.New(rand.NewPCG(uint64(seed), 99))
		real := t.TempDir()
		sim := NewSimFS("/simfs")
		FS = sim
		randPath := func() string {
			n := 1 + r.IntN(3)
			var parts []string
			for i := 0; i < n; i++ {
				parts = append(parts, names[r.IntN(len(names))])
			}
			return strings.Join(parts, "/")
		}
		var trace []string
		for step := 0; step < 60; step++ {
			p, q := randPath(), randPath()
			rp, sp := filepath.Join(real, p), filepath.Join("/simfs", p)
			rq, sq := filepath.Join(real, q), filepath.Join("/simfs", q)
			var a, b string
			op := r.IntN(14)
			switch op {
			case 0:
				data := []byte(fmt.Sprintf("content %d/%d", seed, step))
				a, b = errClass(os.WriteFile(rp, data, 0o644)), errClass(FSWriteFile(sp, data, 0o644))
			case 1:
				a, b = errClass(os.Mkdir(rp, 0o755)), errClass(FSMkdir(sp, 0o755))
			case 2:
				a, b = errClass(os.MkdirAll(rp, 0o755)), errClass(FSMkdirAll(sp, 0o755))
			case 3:
				x, e1 := os.ReadFile(rp)
				y, e2 := FSReadFile(sp)
				a, b = errClass(e1)+":"+string(x), errClass(e2)+":"+string(y)
			case 4:
				x, e1 := os.ReadDir(rp)
				y, e2 := FSReadDir(sp)
				a, b = errClass(e1)+":"+listing(x), errClass(e2)+":"+listing(y)
			case 5:
				a, b = errClass(os.Remove(rp)), errClass(FSRemove(sp))
			case 6:
				if r.IntN(4) != 0 {
					continue // keep trees alive most of the time
				}
				a, b = errClass(os.RemoveAll(rp)), errClass(FSRemoveAll(sp))
			case 7:
				// the simulated rename moves files and links (what the generators do), not directories
				if st, err := os.Lstat(rp); err != nil || st.IsDir() {
					continue
				}
				if st, err := os.Lstat(rq); err == nil && st.IsDir() {
					continue
				}
				a, b = errClass(os.Rename(rp, rq)), errClass(FSRename(sp, sq))
			case 8, 9:
				stat, sstat := os.Stat, FSStat
				if op == 9 {
					stat, sstat = os.Lstat, FSLstat
				}
				x, e1 := stat(rp)
				y, e2 := sstat(sp)
				a, b = errClass(e1), errClass(e2)
				if e1 == nil && e2 == nil {
					a += fmt.Sprintf(":%v:%v", x.IsDir(), x.Mode()&fs.ModeSymlink != 0)
					b += fmt.Sprintf(":%v:%v", y.IsDir(), y.Mode()&fs.ModeSymlink != 0)
					if !x.IsDir() && x.Mode()&fs.ModeSymlink == 0 {
						a += fmt.Sprint(":", x.Size())
						b += fmt.Sprint(":", y.Size())
					}
				}
			case 10:
				// absolute targets inside the tree, relative ones, dangling ones
				var rt, st string
				switch r.IntN(3) {
				case 0:
					rt, st = rq, sq
				case 1:
					rt, st = filepath.Base(q), filepath.Base(q)
				default:
					rt, st = filepath.Join(real, "nowhere"), "/simfs/nowhere"
				}
				a, b = errClass(os.Symlink(rt, rp)), errClass(FSSymlink(st, sp))
			case 11:
				var x, y []string
				e1 := filepath.Walk(rp, func(path string, info fs.FileInfo, err error) error {
					if err != nil {
						x = append(x, "err")
						return nil
					}
					rel, _ := filepath.Rel(real, path)
					x = append(x, fmt.Sprintf("%s:%v:%v", rel, info.IsDir(), info.Mode()&fs.ModeSymlink != 0))
					return nil
				})
				e2 := FSWalk(sp, func(path string, info fs.FileInfo, err error) error {
					if err != nil {
						y = append(y, "err")
						return nil
					}
					rel, _ := filepath.Rel("/simfs", path)
					y = append(y, fmt.Sprintf("%s:%v:%v", rel, info.IsDir(), info.Mode()&fs.ModeSymlink != 0))
					return nil
				})
				a, b = errClass(e1)+":"+strings.Join(x, ","), errClass(e2)+":"+strings.Join(y, ",")
			case 13:
				flags := []int{os.O_WRONLY, os.O_WRONLY | os.O_CREATE, os.O_WRONLY | os.O_CREATE | os.O_TRUNC, os.O_WRONLY | os.O_TRUNC, os.O_WRONLY | os.O_CREATE | os.O_APPEND, os.O_WRONLY | os.O_CREATE | os.O_EXCL, os.O_RDWR | os.O_CREATE}[r.IntN(7)]
				data := fmt.Sprintf("of %d/%d", seed, step)
				f1, e1 := os.OpenFile(rp, flags, 0o644)
				f2, e2 := FSOpenFile(sp, flags, 0o644)
				a, b = errClass(e1), errClass(e2)
				if e1 == nil {
					_, w1 := f1.WriteString(data)
					a += ":" + errClass(w1) + ":" + errClass(f1.Close())
				}
				if e2 == nil {
					_, w2 := f2.WriteString(data)
					b += ":" + errClass(w2) + ":" + errClass(f2.Close())
				}
			case 12:
				x, e1 := os.Readlink(rp)
				y, e2 := FSReadlink(sp)
				a, b = errClass(e1), errClass(e2)
				if a != b {
					t.Logf("readlink: real %v sim %v", e1, e2)
				}
				if e1 == nil && e2 == nil {
					a += ":" + strings.TrimPrefix(x, real)
					b += ":" + strings.TrimPrefix(y, "/simfs")
				}
			}
			trace = append(trace, fmt.Sprintf("op%d %s %s -> real %q sim %q", op, p, q, a, b))
			if a != b {
				t.Fatalf("seed %d step %d: the simulated disk disagrees with the real one\n%s", seed, step, strings.Join(trace[max(0, len(trace)-15):], "\n"))
			}
		}
		// final trees
		var x, y []string
		_ = filepath.Walk(real, func(path string, info fs.FileInfo, err error) error {
			rel, _ := filepath.Rel(real, path)
			if err == nil && !info.IsDir() && info.Mode()&fs.ModeSymlink == 0 {
				c, _ := os.ReadFile(path)
				x = append(x, rel+"="+string(c))
			} else if err == nil {
				x = append(x, rel)
			}
			return nil
		})
		tree := sim.Tree()
		for k, v := range tree {
			rel, _ := filepath.Rel("/simfs", k)
			if strings.HasPrefix(string(v), SymlinkContentPrefix) {
				y = append(y, rel)
			} else {
				y = append(y, rel+"="+string(v))
			}
		}
		for _, d := range sim.DirList() {
			rel, _ := filepath.Rel("/simfs", d)
			y = append(y, rel)
		}
		sort.Strings(x)
		sort.Strings(y)
		if strings.Join(x, "\n") != strings.Join(y, "\n") {
			t.Fatalf("seed %d: final trees differ\nreal:\n%s\nsim:\n%s", seed, strings.Join(x, "\n"), strings.Join(y, "\n"))
		}
		FS = nil
	}
}
