package vrt

import (
	"sync"
)

type tryLocker interface {
	TryLock() bool
	Unlock()
}

// Lock replaces X.Lock() on sync.Mutex / sync.RWMutex / sync.Locker: a scheduling point, then a
// TryLock loop that parks (never blocks on the real mutex, which synctest would not treat as a
// durable block).
func Lock(m sync.Locker, site string) {
	g := cur()
	if g == nil {
		m.Lock()
		return
	}
	tl, ok := m.(tryLocker)
	if !ok {
		panic("vrt.Lock: locker without TryLock")
	}
	yield(g, site)
	for !tl.TryLock() {
		block(g, m, site)
	}
}

func TryLock(m sync.Locker, site string) bool {
	g := cur()
	tl := m.(tryLocker)
	if g == nil {
		return tl.TryLock()
	}
	yield(g, site)
	return tl.TryLock()
}

func Unlock(m sync.Locker) {
	unlockNoYield(m)
	if g := cur(); g != nil && g.sim.cfg.YieldAfterUnlock {
		yield(g, "unlock")
	}
}

func unlockNoYield(m sync.Locker) {
	m.Unlock()
	if s := S.Load(); s != nil {
		s.wakeAll(m)
	}
}

func RLock(m *sync.RWMutex, site string) {
	g := cur()
	if g == nil {
		m.RLock()
		return
	}
	yield(g, site)
	for !m.TryRLock() {
		block(g, sync.Locker(m), site)
	}
}

func RUnlock(m *sync.RWMutex) {
	m.RUnlock()
	if s := S.Load(); s != nil {
		s.wakeAll(sync.Locker(m))
	}
	if g := cur(); g != nil && g.sim.cfg.YieldAfterUnlock {
		yield(g, "runlock")
	}
}

// CondWait replaces c.Wait(): own wait queue; which waiter Signal wakes is a scheduler choice
// when Config.CondRandom is set (sync.Cond documents no order).
func CondWait(c *sync.Cond, site string) {
	g := cur()
	if g == nil {
		c.Wait()
		return
	}
	s := g.sim
	s.mu.Lock()
	s.conds[c] = append(s.conds[c], g)
	s.mu.Unlock()
	unlockNoYield(c.L)
	block(g, c, site)
	Lock(c.L, site)
}

func CondSignal(c *sync.Cond) {
	g := cur()
	if g == nil {
		c.Signal()
		return
	}
	s := g.sim
	s.mu.Lock()
	q := s.conds[c]
	s.mu.Unlock()
	if len(q) == 0 {
		return
	}
	i := 0
	if s.cfg.CondRandom && len(q) > 1 {
		i = s.Tape.Next(len(q))
		if i != 0 {
			s.Count("buggify.cond_nonfifo_wake")
		}
	}
	s.mu.Lock()
	w := q[i]
	w.waitOn = nil
	nq := append([]*G{}, q[:i]...)
	nq = append(nq, q[i+1:]...)
	if len(nq) == 0 {
		delete(s.conds, c)
	} else {
		s.conds[c] = nq
	}
	s.mu.Unlock()
}

func CondBroadcast(c *sync.Cond) {
	g := cur()
	if g == nil {
		c.Broadcast()
		return
	}
	s := g.sim
	s.mu.Lock()
	for _, w := range s.conds[c] {
		w.waitOn = nil
	}
	delete(s.conds, c)
	s.mu.Unlock()
}

type onceState struct {
	running bool
	done    bool
}

// OnceDo replaces o.Do(f): late callers wait (parked) until f has returned, as sync.Once promises.
func OnceDo(o *sync.Once, f func()) {
	g := cur()
	if g == nil {
		o.Do(f)
		return
	}
	s := g.sim
	for {
		s.mu.Lock()
		st := s.onces[o]
		if st == nil {
			st = &onceState{running: true}
			s.onces[o] = st
			s.mu.Unlock()
			func() {
				defer func() {
					s.mu.Lock()
					st.running = false
					st.done = true
					s.mu.Unlock()
					s.wakeAll(o)
				}()
				f()
			}()
			return
		}
		if st.done {
			s.mu.Unlock()
			return
		}
		s.mu.Unlock()
		block(g, o, "once.wait")
	}
}
