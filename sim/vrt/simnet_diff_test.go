package vrt

import (
	"errors"
	"fmt"
	"io"
	"math/rand/v2"
	"net"
	"os"
	"strconv"
	"strings"
	"testing"
	"time"
)

// Differential self-test of the simulated byte stream against a real loopback TCP connection.
// Seeded operation sequences (write, exact read, read with an expired deadline, half close, close)
// are generated against an abstract model of the two directions so that every operation has one
// defined outcome on a correct stream; they are executed on a real *net.TCPConn pair (outside any
// bubble) and on a simulated pair (inside a simulation, with segmentation, short reads and jitter),
// and the outcome classes and all bytes read must agree.

type netOp struct {
	Side int    // 0 = a, 1 = b
	Kind string // write | read | readTimeout | closeWrite | close
	N    int
}

func genNetOps(r *rand.Rand) []netOp {
	var ops []netOp
	avail := [2]int{}        // bytes written by side i and not yet read by its peer
	wclosed := [2]bool{}     // side i has shut down its write side
	closed := [2]bool{}      // side i has closed the connection
	for step := 0; step < 30; step++ {
		s := r.IntN(2)
		p := 1 - s
		switch r.IntN(8) {
		case 0, 1, 2:
			if closed[s] || wclosed[s] || closed[p] {
				continue // writing to a closed peer is timing-dependent on a real network
			}
			n := 1 + r.IntN(5000)
			ops = append(ops, netOp{s, "write", n})
			avail[s] += n
		case 3, 4:
			if closed[s] || avail[p] == 0 {
				continue
			}
			n := 1 + r.IntN(avail[p])
			ops = append(ops, netOp{s, "read", n})
			avail[p] -= n
		case 5:
			if closed[s] {
				continue
			}
			// nothing to read: EOF if the peer has finished writing, otherwise the (expired) deadline fires
			if avail[p] == 0 {
				ops = append(ops, netOp{s, "readTimeout", 0})
			}
		case 6:
			if closed[s] || wclosed[s] || r.IntN(3) != 0 {
				continue
			}
			ops = append(ops, netOp{s, "closeWrite", 0})
			wclosed[s] = true
		case 7:
			// close only with nothing unread on this side (unread data turns the close into a reset on real TCP)
			if closed[s] || avail[p] != 0 || r.IntN(4) != 0 {
				continue
			}
			ops = append(ops, netOp{s, "close", 0})
			closed[s], wclosed[s] = true, true
		}
	}
	for s := 0; s < 2; s++ { // after-close behaviour of the closing side itself
		if closed[s] {
			ops = append(ops, netOp{s, "readTimeout", 0}, netOp{s, "write", 10})
		}
	}
	return ops
}

func netErrClass(err error) string {
	var ne net.Error
	switch {
	case err == nil:
		return "ok"
	case err == io.EOF:
		return "eof"
	case errors.Is(err, net.ErrClosed):
		return "closed"
	case errors.Is(err, os.ErrDeadlineExceeded) || (errors.As(err, &ne) && ne.Timeout()):
		return "timeout"
	}
	return "error"
}

type halfCloser interface{ CloseWrite() error }

func runNetOps(conns [2]net.Conn, ops []netOp, seed uint64, yield func()) []string {
	var out []string
	fill := func(side, n int, off int) []byte {
		b := make([]byte, n)
		for i := range b {
			b[i] = byte((off+i)*31 + side*7 + int(seed))
		}
		return b
	}
	wrote, read := [2]int{}, [2]int{}
	for _, op := range ops {
		c := conns[op.Side]
		switch op.Kind {
		case "write":
			_ = c.SetWriteDeadline(time.Now().Add(5 * time.Second))
			n, err := c.Write(fill(op.Side, op.N, wrote[op.Side]))
			wrote[op.Side] += n
			if err != nil {
				out = append(out, "write:"+netErrClass(err))
			} else {
				out = append(out, fmt.Sprintf("write:ok:%d", n))
			}
		case "read":
			_ = c.SetReadDeadline(time.Now().Add(5 * time.Second))
			buf := make([]byte, op.N)
			n, err := io.ReadFull(c, buf)
			want := fill(1-op.Side, op.N, read[op.Side])
			read[op.Side] += n
			out = append(out, fmt.Sprintf("read:%s:%d:%v", netErrClass(err), n, string(buf[:n]) == string(want[:n])))
		case "readTimeout":
			// a deadline that has already passed: pending EOF still wins on both implementations? No: Go's
			// poller reports the timeout first. So wait for the stream state to settle, then use a short deadline.
			_ = c.SetReadDeadline(time.Now().Add(300 * time.Millisecond))
			n, err := c.Read(make([]byte, 16))
			out = append(out, fmt.Sprintf("readT:%s:%d", netErrClass(err), n))
		case "closeWrite":
			out = append(out, "closeWrite:"+netErrClass(c.(halfCloser).CloseWrite()))
		case "close":
			out = append(out, "close:"+netErrClass(c.Close()))
		}
		if yield != nil {
			yield()
		}
	}
	return out
}

func TestSimNetAgainstLoopbackTCP(t *testing.T) {
	seeds := 60
	if n, err := strconv.Atoi(os.Getenv("VERIF_SIMNET_SEEDS")); err == nil {
		seeds = n
	}
	l, err := net.Listen("tcp4", "127.0.0.1:0")
	if err != nil {
		t.Skipf("no loopback listener in this sandbox: %v", err)
	}
	defer l.Close()
	for seed := 0; seed < seeds; seed++ {
		r := rand.New(rand.NewPCG(uint64(seed), 7))
		ops := genNetOps(r)
		// real TCP
		acc := make(chan net.Conn, 1)
		go func() { c, _ := l.Accept(); acc <- c }()
		ca, err := net.Dial("tcp4", l.Addr().String())
		if err != nil {
			t.Fatal(err)
		}
		cb := <-acc
		real := runNetOps([2]net.Conn{ca, cb}, ops, uint64(seed), nil)
		ca.Close()
		cb.Close()
		// simulated stream under a seeded schedule
		var sim []string
		cfg := Config{Strategy: r.IntN(NumStrategies), MaxSteps: 2_000_000, Horizon: time.Hour}
		segs := []int{0, 1, 7, 100, 1500}
		rds := []int{0, 1, 3, 64}
		res := Run(t, cfg, NewTape(uint64(seed)+1), func(s *Sim) {
			nw := NewNet(NetConfig{MinLatency: 10 * time.Microsecond, Jitter: time.Millisecond, MaxSegment: segs[seed%len(segs)], MaxRead: rds[seed%len(rds)]}, s.Tape.Next)
			a, b := nw.Pair(&net.TCPAddr{IP: net.IPv4(127, 0, 0, 1), Port: 1}, &net.TCPAddr{IP: net.IPv4(127, 0, 0, 1), Port: 2})
			sim = runNetOps([2]net.Conn{a, b}, ops, uint64(seed), func() { Yield("diff.step") })
		})
		if res.Outcome != "done" {
			t.Fatalf("seed %d: simulated run ended with %s %v", seed, res.Outcome, res.Violations)
		}
		if strings.Join(real, "\n") != strings.Join(sim, "\n") {
			var b strings.Builder
			for i := range ops {
				x, y := "-", "-"
				if i < len(real) {
					x = real[i]
				}
				if i < len(sim) {
					y = sim[i]
				}
				mark := " "
				if x != y {
					mark = "*"
				}
				fmt.Fprintf(&b, "%s %+v real=%s sim=%s\n", mark, ops[i], x, y)
			}
			t.Fatalf("seed %d: the simulated stream disagrees with loopback TCP\n%s", seed, b.String())
		}
	}
}
