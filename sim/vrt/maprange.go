package vrt

import (
	"cmp"
	"fmt"
	"iter"
	"reflect"
	"sort"
)

// Map iteration order policies (per run; replaces the runtime's randomised order in rewritten code).
const (
	MapAscending = iota
	MapDescending
	MapShuffle // seeded shuffle of the canonical order, drawn from the tape per range statement execution
	NumMapPolicies
)

// keyFingerprint gives a canonical, content-based sort key. Ordered kinds sort natively; structs
// field-wise; pointers by a shallow fingerprint of the pointee's scalar/string fields (one level of
// nesting). Keys whose fingerprints tie keep the runtime's order and are counted.
func keyFingerprint(v reflect.Value, depth int) string {
	switch v.Kind() {
	case reflect.String:
		return "s" + v.String()
	case reflect.Int, reflect.Int8, reflect.Int16, reflect.Int32, reflect.Int64:
		return fmt.Sprintf("i%020d", uint64(v.Int())^(1<<63))
	case reflect.Uint, reflect.Uint8, reflect.Uint16, reflect.Uint32, reflect.Uint64, reflect.Uintptr:
		return fmt.Sprintf("u%020d", v.Uint())
	case reflect.Bool:
		if v.Bool() {
			return "b1"
		}
		return "b0"
	case reflect.Float32, reflect.Float64:
		return fmt.Sprintf("f%v", v.Float())
	case reflect.Array:
		s := "a"
		for i := 0; i < v.Len(); i++ {
			s += keyFingerprint(v.Index(i), depth) + ","
		}
		return s
	case reflect.Struct:
		s := "{"
		for i := 0; i < v.NumField(); i++ {
			f := v.Field(i)
			switch f.Kind() {
			case reflect.Ptr, reflect.Interface, reflect.Map, reflect.Slice, reflect.Chan, reflect.Func, reflect.UnsafePointer:
				if depth > 0 && (f.Kind() == reflect.Ptr || f.Kind() == reflect.Interface) && !f.IsNil() {
					s += keyFingerprint(f, depth-1)
				} else if f.Kind() == reflect.Slice || f.Kind() == reflect.Map {
					s += fmt.Sprintf("#%d", f.Len())
				}
			default:
				s += keyFingerprint(f, depth)
			}
			s += ";"
		}
		return s + "}"
	case reflect.Ptr, reflect.Interface:
		if v.IsNil() {
			return "nil"
		}
		if depth <= 0 {
			return "p"
		}
		return "p" + v.Elem().Type().String() + keyFingerprint(v.Elem(), depth-1)
	}
	return "?"
}

// OrderKeyer lets a harness give pointer-typed map keys a stable identity (a method added to the
// key's type from an overlay file); without it pointer keys are ordered by a content fingerprint.
type OrderKeyer interface{ VerifOrderKey() string }

func orderedKeys[K comparable, V any](m map[K]V, site string) []K {
	keys := make([]K, 0, len(m))
	for k := range m {
		keys = append(keys, k)
	}
	if len(keys) < 2 {
		return keys
	}
	s := Cur()
	policy := MapAscending
	if s != nil {
		policy = s.cfg.MapPolicy
	}
	switch ks := any(keys).(type) {
	case []string:
		sort.Strings(ks)
	case []int:
		sort.Ints(ks)
	case []int64:
		sort.Slice(ks, func(i, j int) bool { return ks[i] < ks[j] })
	case []uint32:
		sort.Slice(ks, func(i, j int) bool { return ks[i] < ks[j] })
	case []uint64:
		sort.Slice(ks, func(i, j int) bool { return ks[i] < ks[j] })
	default:
		fps := make([]string, len(keys))
		for i, k := range keys {
			if ok, is := any(k).(OrderKeyer); is {
				fps[i] = "K" + ok.VerifOrderKey()
			} else {
				fps[i] = keyFingerprint(reflect.ValueOf(k), 2)
			}
		}
		idx := make([]int, len(keys))
		for i := range idx {
			idx[i] = i
		}
		sort.SliceStable(idx, func(a, b int) bool { return cmp.Less(fps[idx[a]], fps[idx[b]]) })
		out := make([]K, len(keys))
		ties := 0
		for i, j := range idx {
			out[i] = keys[j]
			if i > 0 && fps[idx[i-1]] == fps[j] {
				ties++
			}
		}
		keys = out
		if ties > 0 && s != nil {
			s.mu.Lock()
			s.stats["maprange.uncontrolled_ties"] += ties
			s.mu.Unlock()
		}
	}
	switch policy {
	case MapDescending:
		for i, j := 0, len(keys)-1; i < j; i, j = i+1, j-1 {
			keys[i], keys[j] = keys[j], keys[i]
		}
	case MapShuffle:
		if s != nil {
			for i := len(keys) - 1; i > 0; i-- {
				j := s.Tape.Next(i + 1)
				keys[i], keys[j] = keys[j], keys[i]
			}
		}
	}
	if s != nil {
		s.mu.Lock()
		s.stats["maprange.controlled"]++
		s.mu.Unlock()
	}
	return keys
}

// MapRange replaces `for k, v := range m`: same statement semantics (break/continue/return/labels
// keep their meaning because this is a range-over-func iterator), seeded order. As the language
// specifies, an entry removed before it is reached is not produced; entries added during the
// iteration are not produced (the language allows either).
func MapRange[K comparable, V any](m map[K]V, site string) iter.Seq2[K, V] {
	if !Active() {
		return func(yield func(K, V) bool) {
			for k, v := range m {
				if !yield(k, v) {
					return
				}
			}
		}
	}
	return func(yield func(K, V) bool) {
		for _, k := range orderedKeys(m, site) {
			v, ok := m[k]
			if !ok {
				continue
			}
			if !yield(k, v) {
				return
			}
		}
	}
}

func MapRangeKeys[K comparable, V any](m map[K]V, site string) iter.Seq[K] {
	if !Active() {
		return func(yield func(K) bool) {
			for k := range m {
				if !yield(k) {
					return
				}
			}
		}
	}
	return func(yield func(K) bool) {
		for _, k := range orderedKeys(m, site) {
			if _, ok := m[k]; !ok {
				continue
			}
			if !yield(k) {
				return
			}
		}
	}
}
