package vrt

import (
	"errors"
	"fmt"
	"io"
	"net"
	"os"
	"sync"
	"syscall"
	"time"
)

// simnet: in-memory net.Conn / net.Listener owned by the simulator. Every direction of a
// connection is a byte queue: Write cuts the data into seeded segments, each delivered after a
// seeded latency on the fake clock (FIFO per direction); Read returns a seeded number of bytes
// (short reads). Blocking goes through the scheduler (a parked goroutine with waitOn set) under a
// token scheduler, and through sync.Cond (a durable block for synctest) otherwise, so the same
// code serves the instrumented and the -race configurations. No real socket exists.

type NetConfig struct {
	MinLatency   time.Duration
	Jitter       time.Duration
	MaxSegment   int // maximal bytes per delivered segment (0: whole write)
	MaxRead      int // maximal bytes returned by one Read (0: unlimited)
	Capacity     int // bytes in flight + buffered per direction before Write blocks (0: 1 MiB)
	DialLatency  time.Duration
	DialRefusePct int // percentage of dials refused although a listener exists
}

type Net struct {
	mu        sync.Mutex
	cfg       NetConfig
	listeners map[string]*Listener
	nextPort  int
	choose    func(n int) int // seeded choice source
	Conns     []*Conn         // client ends, in dial order
	OnConn    func(client, server *Conn)
	stats     map[string]int
}

// NewNet creates a network. choose supplies seeded choices (the tape); it is called only from
// simulated goroutines or scheduler events, never concurrently under a token scheduler.
func NewNet(cfg NetConfig, choose func(n int) int) *Net {
	if cfg.Capacity == 0 {
		cfg.Capacity = 1 << 20
	}
	return &Net{cfg: cfg, listeners: map[string]*Listener{}, nextPort: 40000, choose: choose, stats: map[string]int{}}
}

func (n *Net) count(k string) {
	n.mu.Lock()
	n.stats[k]++
	n.mu.Unlock()
	if s := S.Load(); s != nil {
		s.Count(k)
	}
}

func (n *Net) fired(k string) {
	n.mu.Lock()
	n.stats["fault."+k]++
	n.mu.Unlock()
	if s := S.Load(); s != nil {
		s.Fired(k)
	}
}

// ConnsSnapshot returns the client ends dialled so far, in dial order.
func (n *Net) ConnsSnapshot() []*Conn {
	n.mu.Lock()
	defer n.mu.Unlock()
	return append([]*Conn{}, n.Conns...)
}

func (n *Net) Stats() map[string]int {
	n.mu.Lock()
	defer n.mu.Unlock()
	out := map[string]int{}
	for k, v := range n.stats {
		out[k] = v
	}
	return out
}

func (n *Net) pick(k int) int {
	if k <= 1 || n.choose == nil {
		return 0
	}
	n.mu.Lock()
	defer n.mu.Unlock()
	return n.choose(k)
}

// after runs f at now+d: a scheduler event under the token scheduler, a bubble timer otherwise.
func after(d time.Duration, f func()) {
	if s := S.Load(); s != nil {
		s.After(d, f)
		return
	}
	time.AfterFunc(d, f)
}

// waiter is a condition on which simulated goroutines block.
type waiter struct {
	mu   sync.Mutex
	cond *sync.Cond
}

func (w *waiter) init() { w.cond = sync.NewCond(&w.mu) }

// wait releases w.mu, blocks until woken, and re-acquires w.mu.
func (w *waiter) wait(site string) {
	if g := cur(); g != nil {
		w.mu.Unlock()
		block(g, w, site)
		w.mu.Lock()
		return
	}
	w.cond.Wait()
}

// wake must be called without w.mu held or with it held; both are safe.
func (w *waiter) wake() {
	if s := S.Load(); s != nil {
		s.wakeAll(w)
	}
	w.cond.Broadcast()
}

func mkAddr(network, address string) net.Addr {
	switch network {
	case "unix", "unixpacket":
		return &net.UnixAddr{Name: address, Net: network}
	}
	host, port, err := net.SplitHostPort(address)
	if err != nil {
		return &net.TCPAddr{}
	}
	p := 0
	fmt.Sscanf(port, "%d", &p)
	return &net.TCPAddr{IP: net.ParseIP(host), Port: p}
}

type timeoutError struct{}

func (timeoutError) Error() string   { return "i/o timeout" }
func (timeoutError) Timeout() bool   { return true }
func (timeoutError) Temporary() bool { return true }
func (timeoutError) Is(err error) bool { return err == os.ErrDeadlineExceeded }

var errTimeout error = &net.OpError{Op: "read", Net: "sim", Err: timeoutError{}}

// ---------------------------------------------------------------------------------------------

type segment struct {
	data  []byte
	fin   bool
	at    time.Time
	reset bool // the connection is reset when this point of the stream is reached
}

// half is one direction of a connection: bytes written by `from`, read by `to`.
type half struct {
	w        waiter
	net      *Net
	buf      []byte // delivered, unread
	queue    []segment // scheduled, in stream order (delivery times are non-decreasing)
	inflight int    // bytes scheduled but not delivered
	lastAt   time.Time
	fin      bool  // FIN delivered: Read returns EOF after buf is drained
	finSent  bool  // writer closed its side
	rclosed  bool  // reader closed (discard)
	reset    error // connection reset: both operations fail
	rdl, wdl time.Time
	written  int64 // stream offset of bytes accepted from the writer
	// faults, addressed by stream offset of this direction
	corruptAt   int64
	corruptMask byte
	corruptOn   bool
	resetAt     int64
	resetOn     bool
	stallUntil  time.Time
	peerHalf    *half
}

type Conn struct {
	net           *Net
	local, remote net.Addr
	in, out       *half // in: peer -> me, out: me -> peer
	closeOnce     sync.Once
	Name          string
}

func (c *Conn) LocalAddr() net.Addr  { return c.local }
func (c *Conn) RemoteAddr() net.Addr { return c.remote }

// In and Out expose the directions for fault planning by the harness.
func (c *Conn) InWritten() int64  { c.in.w.mu.Lock(); defer c.in.w.mu.Unlock(); return c.in.written }
func (c *Conn) OutWritten() int64 { c.out.w.mu.Lock(); defer c.out.w.mu.Unlock(); return c.out.written }

// CorruptOutAt flips mask into the byte at stream offset off of the me->peer direction.
func (c *Conn) CorruptOutAt(off int64, mask byte) {
	c.out.w.mu.Lock()
	c.out.corruptAt, c.out.corruptMask, c.out.corruptOn = off, mask, true
	c.out.w.mu.Unlock()
}

// ResetOutAt resets the connection when the me->peer stream reaches offset off.
func (c *Conn) ResetOutAt(off int64) {
	c.out.w.mu.Lock()
	c.out.resetAt, c.out.resetOn = off, true
	c.out.w.mu.Unlock()
}

// ResetNow resets the connection immediately (both ends fail).
func (c *Conn) ResetNow() {
	c.net.fired("conn_reset")
	err := &net.OpError{Op: "read", Net: "sim", Err: syscall.ECONNRESET}
	for _, h := range []*half{c.in, c.out} {
		h.w.mu.Lock()
		if h.reset == nil {
			h.reset = err
		}
		h.buf = nil
		h.w.mu.Unlock()
		h.w.wake()
	}
}

// StallOut delays every delivery of the me->peer direction until now+d.
func (c *Conn) StallOut(d time.Duration) {
	c.net.fired("stall")
	c.out.w.mu.Lock()
	c.out.stallUntil = time.Now().Add(d)
	c.out.w.mu.Unlock()
}

// schedule queues a segment for delivery at seg.at. Segments of one direction are delivered in
// stream order whatever order the timers fire in (bubble timers with equal deadlines run as
// independent goroutines).
func (h *half) schedule(seg segment, onReset func()) {
	h.w.mu.Lock()
	h.queue = append(h.queue, seg)
	h.w.mu.Unlock()
	after(time.Until(seg.at), func() { h.deliverDue(onReset) })
}

func (h *half) deliverDue(onReset func()) {
	h.w.mu.Lock()
	now := time.Now()
	doReset := false
	for len(h.queue) > 0 && !h.queue[0].at.After(now) {
		seg := h.queue[0]
		h.queue = h.queue[1:]
		h.inflight -= len(seg.data)
		if h.reset == nil && !h.rclosed {
			h.buf = append(h.buf, seg.data...)
			if seg.fin {
				h.fin = true
			}
		}
		if seg.reset {
			doReset = true
			break
		}
	}
	h.w.mu.Unlock()
	h.w.wake()
	if doReset && onReset != nil {
		onReset()
	}
}

func (c *Conn) Write(p []byte) (int, error) {
	Yield("simnet.write")
	h := c.out
	total := 0
	for len(p) > 0 {
		h.w.mu.Lock()
		for {
			if h.reset != nil {
				err := h.reset
				h.w.mu.Unlock()
				return total, err
			}
			if h.finSent {
				h.w.mu.Unlock()
				return total, &net.OpError{Op: "write", Net: "sim", Err: net.ErrClosed}
			}
			if h.rclosed {
				h.w.mu.Unlock()
				return total, &net.OpError{Op: "write", Net: "sim", Err: syscall.EPIPE}
			}
			if !h.wdl.IsZero() && !time.Now().Before(h.wdl) {
				h.w.mu.Unlock()
				return total, &net.OpError{Op: "write", Net: "sim", Err: timeoutError{}}
			}
			if h.inflight+len(h.buf) < c.net.cfg.Capacity {
				break
			}
			c.net.count("probe.simnet_write_blocked")
			h.w.wait("simnet.write.blocked")
		}
		room := c.net.cfg.Capacity - h.inflight - len(h.buf)
		n := len(p)
		if n > room {
			n = room
		}
		if ms := c.net.cfg.MaxSegment; ms > 0 && n > 1 {
			lim := ms
			if lim > n {
				lim = n
			}
			h.w.mu.Unlock()
			k := 1 + c.net.pick(lim)
			h.w.mu.Lock()
			if k < n {
				n = k
			}
		}
		data := append([]byte{}, p[:n]...)
		// faults addressed by stream offset
		if h.corruptOn && h.corruptAt >= h.written && h.corruptAt < h.written+int64(n) {
			data[h.corruptAt-h.written] ^= h.corruptMask
			h.corruptOn = false
			c.net.fired("byte_corrupted")
		}
		doReset := false
		if h.resetOn && h.resetAt >= h.written && h.resetAt < h.written+int64(n) {
			data = data[:h.resetAt-h.written]
			h.resetOn = false
			doReset = true
		}
		h.written += int64(n)
		h.inflight += len(data)
		lat := c.net.cfg.MinLatency
		h.w.mu.Unlock()
		if j := c.net.cfg.Jitter; j > 0 {
			lat += time.Duration(c.net.pick(int(j/time.Microsecond)+1)) * time.Microsecond
		}
		h.w.mu.Lock()
		at := time.Now().Add(lat)
		if at.Before(h.stallUntil) {
			at = h.stallUntil
		}
		if at.Before(h.lastAt) {
			at = h.lastAt // FIFO per direction
		}
		h.lastAt = at
		h.w.mu.Unlock()
		h.schedule(segment{data: data, at: at, reset: doReset}, c.ResetNow)
		total += n
		p = p[n:]
	}
	return total, nil
}

func (c *Conn) Read(p []byte) (int, error) {
	Yield("simnet.read")
	h := c.in
	h.w.mu.Lock()
	defer h.w.mu.Unlock()
	for {
		if h.reset != nil {
			return 0, h.reset
		}
		if h.rclosed {
			return 0, &net.OpError{Op: "read", Net: "sim", Err: net.ErrClosed}
		}
		if len(h.buf) > 0 {
			n := len(p)
			if n > len(h.buf) {
				n = len(h.buf)
			}
			if mr := c.net.cfg.MaxRead; mr > 0 && n > 1 {
				lim := mr
				if lim > n {
					lim = n
				}
				h.w.mu.Unlock()
				k := 1 + c.net.pick(lim)
				h.w.mu.Lock()
				if k < n && k <= len(h.buf) {
					n = k
					c.net.count("probe.simnet_short_read")
				}
				if n > len(h.buf) {
					n = len(h.buf)
				}
			}
			if n == 0 && len(p) > 0 {
				continue
			}
			copy(p, h.buf[:n])
			h.buf = h.buf[n:]
			h.w.wakeLocked() // writer blocked on capacity
			return n, nil
		}
		if h.fin {
			return 0, io.EOF
		}
		if len(p) == 0 {
			return 0, nil
		}
		if !h.rdl.IsZero() && !time.Now().Before(h.rdl) {
			c.net.count("probe.simnet_read_deadline")
			return 0, errTimeout
		}
		h.w.wait("simnet.read.blocked")
	}
}

func (w *waiter) wakeLocked() {
	if s := S.Load(); s != nil {
		s.wakeAll(w)
	}
	w.cond.Broadcast()
}

func (c *Conn) CloseWrite() error {
	h := c.out
	h.w.mu.Lock()
	if h.finSent || h.reset != nil {
		h.w.mu.Unlock()
		return nil
	}
	h.finSent = true
	at := time.Now().Add(c.net.cfg.MinLatency)
	if at.Before(h.lastAt) {
		at = h.lastAt
	}
	h.lastAt = at
	h.w.mu.Unlock()
	h.schedule(segment{fin: true, at: at}, nil)
	h.w.wake()
	return nil
}

func (c *Conn) Close() error {
	Yield("simnet.close")
	c.closeOnce.Do(func() {
		_ = c.CloseWrite()
		h := c.in
		h.w.mu.Lock()
		h.rclosed = true
		h.buf = nil
		h.w.mu.Unlock()
		h.w.wake()
		c.out.w.wake()
	})
	return nil
}

func (c *Conn) SetDeadline(t time.Time) error {
	_ = c.SetReadDeadline(t)
	return c.SetWriteDeadline(t)
}

func (c *Conn) SetReadDeadline(t time.Time) error {
	h := c.in
	h.w.mu.Lock()
	h.rdl = t
	h.w.mu.Unlock()
	if !t.IsZero() {
		after(time.Until(t), func() { h.w.wake() })
	}
	h.w.wake()
	return nil
}

func (c *Conn) SetWriteDeadline(t time.Time) error {
	h := c.out
	h.w.mu.Lock()
	h.wdl = t
	h.w.mu.Unlock()
	if !t.IsZero() {
		after(time.Until(t), func() { h.w.wake() })
	}
	h.w.wake()
	return nil
}

// ---------------------------------------------------------------------------------------------

type Listener struct {
	net     *Net
	addr    net.Addr
	key     string
	w       waiter
	backlog []*Conn
	closed  bool
	// AcceptErrors: number of temporary errors Accept returns before the next connection (fault)
	AcceptErrors int
}

func (n *Net) Listen(network, address string) *Listener {
	l := &Listener{net: n, addr: mkAddr(network, address), key: network + "|" + address}
	l.w.init()
	n.mu.Lock()
	n.listeners[l.key] = l
	n.mu.Unlock()
	return l
}

type tempError struct{}

func (tempError) Error() string   { return "accept: too many open files (injected)" }
func (tempError) Timeout() bool   { return false }
func (tempError) Temporary() bool { return true }

func (l *Listener) Accept() (net.Conn, error) {
	Yield("simnet.accept")
	l.w.mu.Lock()
	defer l.w.mu.Unlock()
	for {
		if l.closed {
			return nil, &net.OpError{Op: "accept", Net: "sim", Addr: l.addr, Err: net.ErrClosed}
		}
		if l.AcceptErrors > 0 {
			l.AcceptErrors--
			l.net.fired("accept_error_temporary")
			return nil, &net.OpError{Op: "accept", Net: "sim", Addr: l.addr, Err: tempError{}}
		}
		if len(l.backlog) > 0 {
			c := l.backlog[0]
			l.backlog = l.backlog[1:]
			return c, nil
		}
		l.w.wait("simnet.accept.blocked")
	}
}

func (l *Listener) Close() error {
	l.w.mu.Lock()
	l.closed = true
	pend := l.backlog
	l.backlog = nil
	l.w.mu.Unlock()
	l.net.mu.Lock()
	if l.net.listeners[l.key] == l {
		delete(l.net.listeners, l.key)
	}
	l.net.mu.Unlock()
	for _, c := range pend {
		c.ResetNow()
	}
	l.w.wake()
	return nil
}

func (l *Listener) Addr() net.Addr { return l.addr }

var errRefused = &net.OpError{Op: "dial", Net: "sim", Err: syscall.ECONNREFUSED}

// Dial is what rewritten net.DialTimeout calls resolve to (through DialFunc).
func (n *Net) Dial(network, address string, timeout time.Duration) (net.Conn, error) {
	Yield("simnet.dial")
	n.mu.Lock()
	l := n.listeners[network+"|"+address]
	n.nextPort++
	port := n.nextPort
	n.mu.Unlock()
	if d := n.cfg.DialLatency; d > 0 {
		time.Sleep(d)
		Yield("simnet.dial.latency")
	}
	if l == nil {
		n.fired("dial_refused_no_listener")
		return nil, errRefused
	}
	if n.cfg.DialRefusePct > 0 && n.pick(100) < n.cfg.DialRefusePct {
		n.fired("dial_refused")
		return nil, errRefused
	}
	var local net.Addr
	switch network {
	case "unix":
		local = &net.UnixAddr{Name: "", Net: "unix"}
	default:
		ra := l.addr.(*net.TCPAddr)
		local = &net.TCPAddr{IP: ra.IP, Port: port}
	}
	a2b := &half{net: n}
	b2a := &half{net: n}
	a2b.w.init()
	b2a.w.init()
	cl := &Conn{net: n, local: local, remote: l.addr, in: b2a, out: a2b}
	sv := &Conn{net: n, local: l.addr, remote: local, in: a2b, out: b2a}
	l.w.mu.Lock()
	if l.closed {
		l.w.mu.Unlock()
		n.fired("dial_refused_no_listener")
		return nil, errRefused
	}
	l.backlog = append(l.backlog, sv)
	l.w.mu.Unlock()
	n.mu.Lock()
	n.Conns = append(n.Conns, cl)
	cl.Name = fmt.Sprintf("c%d", len(n.Conns))
	sv.Name = fmt.Sprintf("s%d", len(n.Conns))
	cb := n.OnConn
	n.mu.Unlock()
	if cb != nil {
		cb(cl, sv)
	}
	l.w.wake()
	n.count("probe.simnet_connections")
	return cl, nil
}

// Pair returns two connected ends without a listener (used by the framing harness).
func (n *Net) Pair(a, b net.Addr) (*Conn, *Conn) {
	a2b := &half{net: n}
	b2a := &half{net: n}
	a2b.w.init()
	b2a.w.init()
	ca := &Conn{net: n, local: a, remote: b, in: b2a, out: a2b, Name: "a"}
	cb := &Conn{net: n, local: b, remote: a, in: a2b, out: b2a, Name: "b"}
	return ca, cb
}

// DialFunc is the process-wide dial seam used by rewritten code (pkg/rpc has none of its own).
var DialFunc func(network, address string, timeout time.Duration) (net.Conn, error)

func Dial(network, address string, timeout time.Duration) (net.Conn, error) {
	if DialFunc != nil {
		return DialFunc(network, address, timeout)
	}
	return net.DialTimeout(network, address, timeout)
}

var _ = errors.New
