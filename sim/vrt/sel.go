package vrt

import "reflect"

// Sel is the rewritten form of a select statement. Cases are registered in source order (which
// also preserves Go's evaluation order of channel and value expressions); Wait polls them one at
// a time in a tape-chosen order with non-blocking single-case selects, which removes the
// runtime's own random choice among simultaneously ready cases. If none is ready and there is
// no default, a real blocking select over all cases runs (nothing is ready, so the first event
// decides), followed by a scheduling point.
type Sel struct {
	site  string
	polls []func() bool
	cases []reflect.SelectCase
	post  []func(reflect.Value, bool)
}

func NewSel(site string) *Sel { return &Sel{site: site} }

type RecvCase[T any] struct {
	V  T
	OK bool
}

func SelRecv[T any](s *Sel, ch <-chan T) *RecvCase[T] {
	r := &RecvCase[T]{}
	s.polls = append(s.polls, func() bool {
		select {
		case v, ok := <-ch:
			r.V, r.OK = v, ok
			return true
		default:
			return false
		}
	})
	s.cases = append(s.cases, reflect.SelectCase{Dir: reflect.SelectRecv, Chan: reflect.ValueOf(ch)})
	s.post = append(s.post, func(v reflect.Value, ok bool) {
		r.OK = ok
		if ok {
			reflect.ValueOf(&r.V).Elem().Set(v)
		}
	})
	return r
}

func SelSend[T any](s *Sel, ch chan<- T, x T) {
	s.polls = append(s.polls, func() bool {
		select {
		case ch <- x:
			return true
		default:
			return false
		}
	})
	s.cases = append(s.cases, reflect.SelectCase{Dir: reflect.SelectSend, Chan: reflect.ValueOf(ch), Send: reflect.ValueOf(&x).Elem()})
	s.post = append(s.post, nil)
}

// Wait returns the index of the case that fired, or -1 for default.
func (s *Sel) Wait(hasDefault bool) int {
	g := cur()
	n := len(s.polls)
	if g == nil {
		// passthrough: the runtime's own select semantics
		cases := s.cases
		if hasDefault {
			cases = append(cases[:n:n], reflect.SelectCase{Dir: reflect.SelectDefault})
		}
		i, v, ok := reflect.Select(cases)
		if i == n {
			return -1
		}
		if s.post[i] != nil {
			s.post[i](v, ok)
		}
		return i
	}
	sim := g.sim
	// polling order: rotation + direction chosen from the tape when more than one case exists
	start, dir := 0, 1
	if n > 1 {
		k := sim.Tape.Next(2 * n)
		start = k % n
		if k >= n {
			dir = n - 1
		}
	}
	for j := 0; j < n; j++ {
		i := (start + j*dir) % n
		if s.polls[i]() {
			if j > 0 || n > 1 {
				sim.Count("sched.select_polled")
			}
			yield(g, s.site)
			return i
		}
	}
	if hasDefault {
		return -1
	}
	i, v, ok := reflect.Select(s.cases)
	if s.post[i] != nil {
		s.post[i](v, ok)
	}
	yield(g, s.site)
	return i
}
