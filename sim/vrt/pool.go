package vrt

import "sync"

// Pool policies: the real sync.Pool is per-P and not replayable, so rewritten code goes through
// a per-run policy.
const (
	PoolLIFO = iota // always reuse the most recently put object (maximises stale-state exposure)
	PoolFIFO
	PoolDrop   // never reuse
	PoolSeeded // tape decides per Get whether and which object to reuse
	NumPoolPolicies
)

type poolState struct{ items []any }

func PoolGet(p *sync.Pool) any {
	g := cur()
	if g == nil {
		return p.Get()
	}
	s := g.sim
	s.mu.Lock()
	st := s.pools[p]
	var x any
	if st != nil && len(st.items) > 0 {
		switch s.cfg.PoolPolicy {
		case PoolLIFO:
			x = st.items[len(st.items)-1]
			st.items = st.items[:len(st.items)-1]
		case PoolFIFO:
			x = st.items[0]
			st.items = st.items[1:]
		case PoolSeeded:
			s.mu.Unlock()
			k := s.Tape.Next(len(st.items) + 1)
			s.mu.Lock()
			if k > 0 {
				x = st.items[k-1]
				st.items = append(st.items[:k-1], st.items[k:]...)
			}
		}
	}
	if x != nil {
		s.stats["probe.pool_reuse"]++
	}
	s.mu.Unlock()
	if x == nil && p.New != nil {
		x = p.New()
	}
	return x
}

func PoolPut(p *sync.Pool, x any) {
	g := cur()
	if g == nil {
		p.Put(x)
		return
	}
	s := g.sim
	if s.cfg.PoolPolicy == PoolDrop || x == nil {
		return
	}
	s.mu.Lock()
	st := s.pools[p]
	if st == nil {
		st = &poolState{}
		s.pools[p] = st
	}
	if len(st.items) < 64 {
		st.items = append(st.items, x)
	}
	s.mu.Unlock()
}
