package vrt

import (
	"crypto/sha256"
	"encoding/hex"
	"encoding/json"
	"fmt"
	"os"
	"runtime"
	"sort"
	"strings"
	"testing"
	"time"
)

// Engine is what a harness provides; the generic worker below does fan-in of statistics,
// the in-line determinism check, minimisation and replay.
type Engine interface {
	// Gen draws a scenario for run seed (pure function of seed and cfg).
	Gen(seed uint64, cfg map[string]any) json.RawMessage
	// Exec runs one scenario under one tape.
	Exec(t *testing.T, scenario json.RawMessage, tape *Tape, keepLog bool) RunOut
	// Shrink proposes strictly simpler scenarios (may return nil).
	Shrink(scenario json.RawMessage) []json.RawMessage
}

// RunOut is the engine-independent outcome of one run.
type RunOut struct {
	Result
	Nontrivial bool           // by the engine's stated rule
	Sig        string         // signature used for distinct counting (default SchedSig)
	Probes     map[string]int // engine probes / fault counters (merged with Result.Stats)
	Progress   bool           // some operation completed
	Sample     any            // optional printable sample of the case
	NoDetCheck bool           // run is not expected to be replayable (race configs)
}

type WorkerCfg struct {
	Property  string         `json:"property"`
	Engine    string         `json:"engine"`
	Config    string         `json:"config"`
	Seed      uint64         `json:"seed"`
	Shard     int            `json:"shard"`
	Shards    int            `json:"shards"`
	Runs      int            `json:"runs"`       // total runs over all shards (0 = until deadline)
	WallSec   float64        `json:"wall_sec"`   // per-shard wall budget
	Out       string         `json:"out"`        // result file
	ReplayDir string         `json:"replay_dir"` // where to write replay files
	Params    map[string]any `json:"params"`
	DetPct    int            `json:"det_pct"` // percentage of runs re-executed to compare log hashes
	Replay    string         `json:"replay"`  // replay file path (replay mode)
	RepoHead  string         `json:"repo_head"`
	NoShrink  bool           `json:"no_shrink"`
	Indices   []int          `json:"indices"` // debugging: run exactly these run indices, print their hashes
	RunSeeds  []uint64       `json:"run_seeds"` // debugging: run exactly these run seeds (as printed in MACHINERY/violation lines) and print the log tail
	Known     []KnownPattern `json:"known"`   // findings listed in /verif/known_findings.json: recorded, but the search goes on
}

type KnownPattern struct {
	Class string `json:"class"`
	Match string `json:"match"`
}

type ReplayFile struct {
	Property  string          `json:"property"`
	Engine    string          `json:"engine"`
	Config    string          `json:"config"`
	Seed      uint64          `json:"seed"`
	RunSeed   uint64          `json:"run_seed"`
	RunIndex  int             `json:"run_index"`
	Params    map[string]any  `json:"params,omitempty"`
	Scenario  json.RawMessage `json:"scenario"`
	Tape      []uint32        `json:"tape"`
	Violation Violation       `json:"violation"`
	LogSHA256 string          `json:"log_sha256"`
	RepoHead  string          `json:"repo_head"`
	GoVersion string          `json:"go_version"`
	Minimised bool            `json:"minimised"`
	OrigTape  int             `json:"orig_tape_len"`
	Log       []string        `json:"log_tail,omitempty"`
}

type WorkerOut struct {
	Shard        int                `json:"shard"`
	Evaluations  int                `json:"evaluations"`
	Nontrivial   int                `json:"nontrivial"`
	Sigs         []string           `json:"sigs"`
	Steps        int64              `json:"steps"`
	SimTimeNs    int64              `json:"sim_time_ns"`
	Stats        map[string]int64   `json:"stats"`
	Outcomes     map[string]int     `json:"outcomes"`
	NoProgress   int                `json:"no_progress"`
	DetChecked   int                `json:"det_checked"`
	DetMismatch  []string           `json:"det_mismatch"`
	Violations   []string           `json:"violations"` // replay file paths
	KnownHits    int                `json:"known_hits"`
	ViolClasses  []string           `json:"violation_classes"`
	Machinery    []string           `json:"machinery"`
	Samples      []any              `json:"samples"`
	WallSec      float64            `json:"wall_sec"`
	MaxRunnable  int                `json:"max_runnable"`
	ReplayResult *ReplayResult      `json:"replay_result,omitempty"`
	Extra        map[string]float64 `json:"extra,omitempty"`
}

type ReplayResult struct {
	Reproduced bool   `json:"reproduced"`
	SameHash   bool   `json:"same_hash"`
	Class      string `json:"class"`
	Msg        string `json:"message"`
	LogSHA256  string `json:"log_sha256"`
}

func splitmix(x uint64) uint64 {
	x += 0x9E3779B97F4A7C15
	z := x
	z = (z ^ (z >> 30)) * 0xBF58476D1CE4E5B9
	z = (z ^ (z >> 27)) * 0x94D049BB133111EB
	return z ^ (z >> 31)
}

// RunSeed derives the per-run seed from the base seed and run index.
func RunSeed(base uint64, idx int) uint64 { return splitmix(base*0x100000001B3 + uint64(idx)) }

func firstViolation(r RunOut) (Violation, bool) {
	if len(r.Violations) == 0 {
		return Violation{}, false
	}
	return r.Violations[0], true
}

// WorkerMain is called from the harness's TestVerifWorker.
func WorkerMain(t *testing.T, eng Engine) {
	raw := os.Getenv("VERIF_WORKER")
	if raw == "" {
		t.Skip("VERIF_WORKER not set")
	}
	var cfg WorkerCfg
	if err := json.Unmarshal([]byte(raw), &cfg); err != nil {
		t.Fatalf("bad VERIF_WORKER: %v", err)
	}
	out := &WorkerOut{Shard: cfg.Shard, Stats: map[string]int64{}, Outcomes: map[string]int{}}
	start := time.Now()
	defer func() {
		out.WallSec = time.Since(start).Seconds()
		b, _ := json.Marshal(out)
		if err := os.WriteFile(cfg.Out, b, 0o644); err != nil {
			t.Fatalf("write result: %v", err)
		}
	}()
	if cfg.Replay != "" {
		out.ReplayResult = replayFile(t, eng, cfg.Replay)
		return
	}
	if cfg.Shards <= 0 {
		cfg.Shards = 1
	}
	if len(cfg.RunSeeds) > 0 {
		for _, rs := range cfg.RunSeeds {
			sc := eng.Gen(rs, cfg.Params)
			r := eng.Exec(t, sc, NewTape(splitmix(rs)), true)
			fmt.Printf("RUNSEED %d %s %s steps=%d violations=%v\nSCENARIO %s\n", rs, r.LogHash[:16], r.Outcome, r.Steps, r.Violations, sc)
			for _, l := range r.Log[max(0, len(r.Log)-200):] {
				fmt.Println("  ", l)
			}
		}
		return
	}
	if len(cfg.Indices) > 0 {
		for _, idx := range cfg.Indices {
			rs := RunSeed(cfg.Seed, idx)
			tp := NewTape(splitmix(rs))
			r := eng.Exec(t, eng.Gen(rs, cfg.Params), tp, false)
			fmt.Printf("RUNHASH %d seed=%d %s %s steps=%d\n", idx, rs, r.LogHash[:16], r.Outcome, r.Steps)
			if os.Getenv("VERIF_DIFF_LOG") != "" {
				a := eng.Exec(t, eng.Gen(rs, cfg.Params), NewTape(splitmix(rs)), true)
				b := eng.Exec(t, eng.Gen(rs, cfg.Params), NewTape(splitmix(rs)), true)
				fmt.Printf("DIFFLOG %d hashes %s %s lens %d %d\n", idx, a.LogHash[:12], b.LogHash[:12], len(a.Log), len(b.Log))
				for i := 0; i < len(a.Log) && i < len(b.Log); i++ {
					if a.Log[i] != b.Log[i] && !strings.Contains(a.Log[i], " LOG ") {
						lo := max(0, i-12)
						for j := lo; j < min(i+6, len(a.Log), len(b.Log)); j++ {
							fmt.Printf("  A %s\n  B %s\n", a.Log[j], b.Log[j])
						}
						break
					}
				}
			}
			rp := ReplayTape(tp.Rec)
			r2 := eng.Exec(t, eng.Gen(rs, cfg.Params), rp, false)
			fmt.Printf("REPLAYHASH %d %s %s steps=%d taperec=%d replayed=%d\n", idx, r2.LogHash[:16], r2.Outcome, r2.Steps, len(tp.Rec), rp.pos)
		}
		return
	}
	sigs := map[string]struct{}{}
	detDigest := sha256.New()
	defer func() {
		if os.Getenv("VERIF_DET_DIGEST") != "" {
			fmt.Printf("DETDIGEST %s\n", hex.EncodeToString(detDigest.Sum(nil)))
		}
	}()
	deadline := start.Add(time.Duration(cfg.WallSec * float64(time.Second)))
	for idx := cfg.Shard; cfg.Runs == 0 || idx < cfg.Runs; idx += cfg.Shards {
		if cfg.WallSec > 0 && time.Now().After(deadline) {
			break
		}
		rs := RunSeed(cfg.Seed, idx)
		sc := eng.Gen(rs, cfg.Params)
		tape := NewTape(splitmix(rs))
		r := eng.Exec(t, sc, tape, false)
		out.Evaluations++
		fmt.Fprintf(detDigest, "%d %s %s\n", idx, r.LogHash, r.Outcome)
		out.Steps += int64(r.Steps)
		out.SimTimeNs += int64(r.SimTime)
		out.Outcomes[r.Outcome]++
		if r.MaxRunnable > out.MaxRunnable {
			out.MaxRunnable = r.MaxRunnable
		}
		for k, v := range r.Stats {
			out.Stats[k] += int64(v)
		}
		for k, v := range r.Probes {
			out.Stats[k] += int64(v)
		}
		if !r.Progress {
			out.NoProgress++
		}
		if r.Nontrivial && r.Progress {
			sig := r.Sig
			if sig == "" {
				sig = r.SchedSig
			}
			if _, ok := sigs[sig]; !ok {
				sigs[sig] = struct{}{}
				out.Nontrivial++
			}
		}
		if len(out.Samples) < 2 && r.Sample != nil {
			out.Samples = append(out.Samples, r.Sample)
		}
		if v, bad := firstViolation(r); bad {
			if v.Class == "machinery" {
				out.Machinery = append(out.Machinery, fmt.Sprintf("run %d seed %d: %s", idx, rs, v.Msg))
				break
			}
			isKnown := false
			for _, k := range cfg.Known {
				if k.Class == v.Class && (k.Match == "" || strings.Contains(v.Msg, k.Match)) {
					isKnown = true
				}
			}
			if isKnown && out.KnownHits > 0 {
				out.KnownHits++ // one replay file per shard is enough for a listed finding
				continue
			}
			rf := &ReplayFile{Property: cfg.Property, Engine: cfg.Engine, Config: cfg.Config, Seed: cfg.Seed, RunSeed: rs, RunIndex: idx,
				Params: cfg.Params, Scenario: sc, Tape: tape.Rec, Violation: v, LogSHA256: r.LogHash, RepoHead: cfg.RepoHead,
				GoVersion: runtime.Version(), OrigTape: len(tape.Rec)}
			if !cfg.NoShrink && !r.NoDetCheck {
				minimise(t, eng, rf, isKnown)
			}
			// final run with log kept, for the human-readable tail
			fr := eng.Exec(t, rf.Scenario, ReplayTape(rf.Tape), true)
			if fv, ok := firstViolation(fr); ok && fv.Class == rf.Violation.Class {
				rf.Violation = fv
				rf.LogSHA256 = fr.LogHash
			}
			tail := fr.Log
			if len(tail) > 400 {
				tail = tail[len(tail)-400:]
			}
			rf.Log = tail
			path := fmt.Sprintf("%s/%s-%d.json", cfg.ReplayDir, cfg.Property, rs)
			b, _ := json.MarshalIndent(rf, "", " ")
			_ = os.MkdirAll(cfg.ReplayDir, 0o755)
			if err := os.WriteFile(path, b, 0o644); err != nil {
				t.Fatalf("write replay: %v", err)
			}
			out.Violations = append(out.Violations, path)
			out.ViolClasses = append(out.ViolClasses, v.Class)
			if isKnown {
				out.KnownHits++
				continue
			}
			break
		}
		if cfg.DetPct > 0 && !r.NoDetCheck && int(splitmix(rs^0xD37)%100) < cfg.DetPct {
			r2 := eng.Exec(t, sc, NewTape(splitmix(rs)), false)
			out.DetChecked++
			if r2.LogHash != r.LogHash {
				out.DetMismatch = append(out.DetMismatch, fmt.Sprintf("run %d seed %d: %s vs %s", idx, rs, r.LogHash[:12], r2.LogHash[:12]))
			}
		}
	}
	for s := range sigs {
		out.Sigs = append(out.Sigs, s)
	}
	sort.Strings(out.Sigs)
}

func sameClass(r RunOut, class string) bool {
	v, ok := firstViolation(r)
	return ok && v.Class == class
}

// minimise shrinks scenario, then tape, accepting a candidate only if the same violation class
// recurs. (curSc, curTape) is at all times a pair that was verified to fail with that class.
func minimise(t *testing.T, eng Engine, rf *ReplayFile, brief bool) {
	class := rf.Violation.Class
	budget := 20000
	deadline := time.Now().Add(60 * time.Second)
	if brief {
		deadline = time.Now().Add(5 * time.Second)
	}
	try := func(sc json.RawMessage, tape []uint32) (RunOut, bool) {
		if budget <= 0 || time.Now().After(deadline) {
			return RunOut{}, false
		}
		budget--
		r := eng.Exec(t, sc, ReplayTape(tape), false)
		return r, sameClass(r, class)
	}
	curSc := rf.Scenario
	curTape := append([]uint32{}, rf.Tape...)
	last, ok := try(curSc, curTape)
	if !ok {
		return // the recorded tape must reproduce at all
	}
	shrinkScenario := func() {
		for changed := true; changed; {
			changed = false
			for _, cand := range eng.Shrink(curSc) {
				if r, ok := try(cand, curTape); ok {
					curSc, last = cand, r
					changed = true
					break
				}
			}
		}
	}
	// 1. scenario
	shrinkScenario()
	// 2. tape: truncate (binary search for a short failing prefix)
	lo, hi := 0, len(curTape)
	for lo < hi {
		mid := (lo + hi) / 2
		if r, ok := try(curSc, curTape[:mid]); ok {
			hi = mid
			curTape, last = curTape[:mid], r
		} else {
			lo = mid + 1
		}
	}
	// 3. tape: zero chunks (ddmin-like); zero = "keep running the same goroutine", "no fault"
	for chunk := len(curTape) / 2; chunk >= 1; chunk /= 2 {
		for i := 0; i < len(curTape); i += chunk {
			end := min(i+chunk, len(curTape))
			allZero := true
			for _, v := range curTape[i:end] {
				if v != 0 {
					allZero = false
				}
			}
			if allZero {
				continue
			}
			cand := append([]uint32{}, curTape...)
			for j := i; j < end; j++ {
				cand[j] = 0
			}
			if r, ok := try(curSc, cand); ok {
				curTape, last = cand, r
			}
		}
	}
	// 4. scenario again with the simpler tape
	shrinkScenario()
	// 5. drop trailing zeros (an exhausted tape yields 0)
	trimmed := curTape
	for len(trimmed) > 0 && trimmed[len(trimmed)-1] == 0 {
		trimmed = trimmed[:len(trimmed)-1]
	}
	if len(trimmed) < len(curTape) {
		if r, ok := try(curSc, trimmed); ok {
			curTape, last = trimmed, r
		}
	}
	rf.Scenario, rf.Tape = curSc, curTape
	rf.Minimised = true
	rf.LogSHA256 = last.LogHash
	rf.Violation, _ = firstViolation(last)
}

func replayFile(t *testing.T, eng Engine, path string) *ReplayResult {
	b, err := os.ReadFile(path)
	if err != nil {
		t.Fatalf("read replay: %v", err)
	}
	var rf ReplayFile
	if err := json.Unmarshal(b, &rf); err != nil {
		t.Fatalf("parse replay: %v", err)
	}
	r := eng.Exec(t, rf.Scenario, ReplayTape(rf.Tape), true)
	rr := &ReplayResult{LogSHA256: r.LogHash}
	if v, ok := firstViolation(r); ok {
		rr.Class = v.Class
		rr.Msg = v.Msg
		rr.Reproduced = v.Class == rf.Violation.Class
	}
	rr.SameHash = r.LogHash == rf.LogSHA256
	if os.Getenv("VERIF_REPLAY_VERBOSE") != "" {
		fmt.Println(strings.Join(r.Log, "\n"))
	}
	return rr
}

// HashJSON is a helper for signatures.
func HashJSON(v any) string {
	b, _ := json.Marshal(v)
	h := sha256.Sum256(b)
	return hex.EncodeToString(h[:8])
}
