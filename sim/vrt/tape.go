// Package vrt is the simulator runtime of the deterministic-simulation framework in /verif.
// It is compiled *inside* the tl module (mapped to internal/zzverif/vrt by a build overlay), so it
// may only import the standard library.
package vrt

import (
	"math/rand/v2"
)

// Tape is the single source of every choice made during one simulated run: scheduling picks,
// time advances, fault coins, knob values drawn at run time. In generation mode choices come
// from a PRNG seeded from (VERIF_SEED, run index) and are recorded; in replay mode they come
// from an explicit list (taken modulo the number of alternatives; an exhausted list yields 0).
type Tape struct {
	explicit []uint32
	replay   bool
	pos      int
	rng      *rand.Rand
	Rec      []uint32
	norec    bool
}

func NewTape(seed uint64) *Tape {
	return &Tape{rng: rand.New(rand.NewPCG(seed, 0x9E3779B97F4A7C15^seed<<1))}
}

func ReplayTape(choices []uint32) *Tape {
	return &Tape{explicit: choices, replay: true}
}

func (t *Tape) Replaying() bool { return t.replay }

// Next returns a value in [0,n). n<=1 returns 0 without consuming anything.
func (t *Tape) Next(n int) int {
	if n <= 1 {
		return 0
	}
	var v int
	if t.replay {
		if t.pos < len(t.explicit) {
			v = int(t.explicit[t.pos] % uint32(n))
		}
		t.pos++
	} else {
		v = t.rng.IntN(n)
	}
	if !t.norec {
		t.Rec = append(t.Rec, uint32(v))
	}
	return v
}

// Put records an externally decided choice (strategy layer) as if it had been drawn.
func (t *Tape) put(v int) {
	if !t.norec {
		t.Rec = append(t.Rec, uint32(v))
	}
}

// raw draws from the PRNG without recording (used by strategy layers whose *result* is recorded).
func (t *Tape) raw(n int) int {
	if n <= 1 || t.replay {
		return 0
	}
	return t.rng.IntN(n)
}

// Prob returns true with probability num/den (recorded as a 0/1 choice; 0 = false so a zeroed
// tape means "no fault").
func (t *Tape) Prob(num, den int) bool {
	if num <= 0 {
		return false
	}
	if t.replay {
		return t.Next(2) == 1
	}
	v := 0
	if t.rng.IntN(den) < num {
		v = 1
	}
	t.put(v)
	return v == 1
}

// Range returns a value in [lo,hi] (inclusive); zero tape gives lo.
func (t *Tape) Range(lo, hi int) int {
	if hi <= lo {
		return lo
	}
	return lo + t.Next(hi-lo+1)
}

// Rand64 returns 64 pseudo-random bits (two recorded 32-bit choices).
func (t *Tape) Rand64() uint64 {
	a := uint64(t.Next(1 << 31))
	b := uint64(t.Next(1 << 31))
	c := uint64(t.Next(4))
	return a | b<<31 | c<<62
}
