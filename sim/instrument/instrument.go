// Package instrument is the type-aware source rewriter that injects simulator seams into packages
// of the tl module at build time. It reads the *current working tree* of /repo, writes rewritten
// copies to a scratch directory and returns `go build -overlay` entries for them. /repo is never
// written.
package instrument

import (
	"bytes"
	"fmt"
	"go/ast"
	"go/format"
	"go/token"
	"go/types"
	"os"
	"path/filepath"
	"sort"
	"strings"

	"golang.org/x/tools/go/ast/astutil"
	"golang.org/x/tools/go/packages"
)

const VrtPath = "github.com/VKCOM/tl/internal/zzverif/vrt"

// Rules selects which rewrite families apply.
type Rules struct {
	Conc     bool // go, sync.*, channels, select, time.Sleep, AfterFunc, errgroup, Pool
	MapRange bool // for range over maps
	FS       bool // os / filepath file operations -> simfs
	Dial     bool // net.DialTimeout -> vrt.Dial
	NumCPU   bool // runtime.NumCPU -> vrt.NumCPU
	Rand     bool // pgregory.net/rand, math/rand top-level funcs
}

type Options struct {
	RepoDir  string
	OutDir   string
	Patterns []string
	Rules    Rules
	// ExtraOverlay is consulted when loading (e.g. a mutant replacing a repo file).
	ExtraOverlay map[string][]byte
}

type Report struct {
	Overlay   map[string]string
	Stats     map[string]int
	Unhandled []string
	Packages  []string
}

func Run(o Options) (*Report, error) {
	rep := &Report{Overlay: map[string]string{}, Stats: map[string]int{}}
	cfg := &packages.Config{
		Mode: packages.NeedName | packages.NeedFiles | packages.NeedSyntax | packages.NeedTypes |
			packages.NeedTypesInfo | packages.NeedImports | packages.NeedDeps | packages.NeedCompiledGoFiles,
		Dir:     o.RepoDir,
		Env:     append(os.Environ(), "GOFLAGS=-mod=mod", "GOPROXY=off", "GOSUMDB=off", "GOTOOLCHAIN=local"),
		Overlay: o.ExtraOverlay,
	}
	pkgs, err := packages.Load(cfg, o.Patterns...)
	if err != nil {
		return nil, err
	}
	for _, p := range pkgs {
		for _, e := range p.Errors {
			return nil, fmt.Errorf("load %s: %v", p.PkgPath, e)
		}
		rep.Packages = append(rep.Packages, p.PkgPath)
		for i, f := range p.Syntax {
			name := p.CompiledGoFiles[i]
			if strings.HasSuffix(name, "_test.go") {
				continue
			}
			in := &inst{p: p, fset: p.Fset, file: name, rules: o.Rules, rep: rep, labelPre: map[*ast.LabeledStmt][]ast.Stmt{}}
			in.rewrite(f)
			if !in.changed {
				continue
			}
			astutil.AddNamedImport(p.Fset, f, "vrt", VrtPath)
			in.pruneImports(f)
			stripComments(f)
			var buf bytes.Buffer
			if err := format.Node(&buf, p.Fset, f); err != nil {
				return nil, fmt.Errorf("print %s: %v", name, err)
			}
			dst := filepath.Join(o.OutDir, strings.ReplaceAll(p.PkgPath, "/", "_"), filepath.Base(name))
			if err := os.MkdirAll(filepath.Dir(dst), 0o755); err != nil {
				return nil, err
			}
			if err := os.WriteFile(dst, buf.Bytes(), 0o644); err != nil {
				return nil, err
			}
			rep.Overlay[name] = dst
		}
	}
	sort.Strings(rep.Packages)
	return rep, nil
}

// stripComments drops free-floating comments from a rewritten file: go/printer places comments by
// position, and after statements were inserted or replaced a comment can land inside an expression
// and produce code that does not parse. Build constraints and other compiler directives (which sit
// before the package clause or directly above a top-level declaration) are kept.
func stripComments(f *ast.File) {
	var keep []*ast.CommentGroup
	for _, g := range f.Comments {
		directive := false
		for _, c := range g.List {
			if strings.HasPrefix(c.Text, "//go:") || strings.HasPrefix(c.Text, "// +build") || strings.HasPrefix(c.Text, "//line ") {
				directive = true
			}
		}
		if directive || g.End() < f.Package {
			keep = append(keep, g)
		}
	}
	f.Comments = keep
}

type inst struct {
	p        *packages.Package
	fset     *token.FileSet
	file     string
	rules    Rules
	rep      *Report
	changed  bool
	n        int
	labelPre map[*ast.LabeledStmt][]ast.Stmt
}

func (in *inst) stat(k string) { in.rep.Stats[k]++ }
func (in *inst) unhandled(n ast.Node, what string) {
	in.rep.Unhandled = append(in.rep.Unhandled, fmt.Sprintf("%s: %s", in.fset.Position(n.Pos()), what))
}

func (in *inst) siteStr(n ast.Node) string {
	pos := in.fset.Position(n.Pos())
	return fmt.Sprintf("%s:%d", filepath.Base(pos.Filename), pos.Line)
}

func (in *inst) site(n ast.Node) ast.Expr {
	return &ast.BasicLit{Kind: token.STRING, Value: fmt.Sprintf("%q", in.siteStr(n))}
}

func vcall(name string, args ...ast.Expr) *ast.CallExpr {
	return &ast.CallExpr{Fun: &ast.SelectorExpr{X: ast.NewIdent("vrt"), Sel: ast.NewIdent(name)}, Args: args}
}

func (in *inst) yield(n ast.Node) ast.Stmt {
	return &ast.ExprStmt{X: vcall("Yield", in.site(n))}
}

func (in *inst) addr(x ast.Expr) ast.Expr {
	t := in.p.TypesInfo.TypeOf(x)
	if t != nil {
		if _, ok := t.Underlying().(*types.Pointer); ok {
			return x
		}
	}
	return &ast.UnaryExpr{Op: token.AND, X: x}
}

func isRecv(e ast.Expr) bool {
	u, ok := ast.Unparen(e).(*ast.UnaryExpr)
	return ok && u.Op == token.ARROW
}

func (in *inst) isChan(e ast.Expr) bool {
	t := in.p.TypesInfo.TypeOf(e)
	if t == nil {
		return false
	}
	_, ok := t.Underlying().(*types.Chan)
	return ok
}

func (in *inst) isMap(e ast.Expr) bool {
	t := in.p.TypesInfo.TypeOf(e)
	if t == nil {
		return false
	}
	_, ok := t.Underlying().(*types.Map)
	return ok
}

// pkgFunc reports (import path, name) if c calls a package-level function through a package name.
func (in *inst) pkgFunc(c *ast.CallExpr) (string, string) {
	sel, ok := c.Fun.(*ast.SelectorExpr)
	if !ok {
		return "", ""
	}
	id, ok := sel.X.(*ast.Ident)
	if !ok {
		return "", ""
	}
	pn, ok := in.p.TypesInfo.Uses[id].(*types.PkgName)
	if !ok {
		return "", ""
	}
	return pn.Imported().Path(), sel.Sel.Name
}

var fsFuncs = map[string]map[string]string{
	"os": {
		"ReadFile": "FSReadFile", "WriteFile": "FSWriteFile", "Mkdir": "FSMkdir", "MkdirAll": "FSMkdirAll",
		"ReadDir": "FSReadDir", "Remove": "FSRemove", "RemoveAll": "FSRemoveAll", "Stat": "FSStat", "Lstat": "FSLstat",
		"Symlink": "FSSymlink", "Readlink": "FSReadlink",
		"Create": "FSCreate", "Open": "FSOpen", "OpenFile": "FSOpenFile", "Rename": "FSRename",
	},
	"path/filepath": {"Walk": "FSWalk", "WalkDir": "FSWalkDir", "EvalSymlinks": "FSEvalSymlinks"},
	"io/ioutil":     {"ReadFile": "FSReadFile", "WriteFile": "FSWriteFile", "ReadDir": "FSReadDirInfo"},
}

// file-system calls that would bypass the simulated disk: refuse to build rather than miss them
var fsUnsupported = map[string]map[string]bool{
	"os":            {"Chmod": true, "Chown": true, "Lchown": true, "Chtimes": true, "Truncate": true, "Link": true, "CopyFS": true, "MkdirTemp": true, "CreateTemp": true, "DirFS": true, "OpenRoot": true, "OpenInRoot": true, "SameFile": true},
	"path/filepath": {"Glob": true},
	"io/ioutil":     {"TempFile": true, "TempDir": true},
}

var randPkgs = map[string]bool{"pgregory.net/rand": true, "math/rand": true, "math/rand/v2": true}
var randFuncs = map[string]string{
	"Uint64": "RandUint64", "Uint64n": "RandUint64n", "Intn": "RandIntn", "Int63": "RandInt63", "Uint32": "RandUint32",
	"Int": "RandInt", "Int63n": "RandInt63n", "Int31n": "RandInt31n", "Float64": "RandFloat64", "IntN": "RandIntn",
	"Uint32n": "RandUint32n", "Int31": "RandInt31", "Perm": "RandPerm", "Shuffle": "RandShuffle",
}

func (in *inst) rewriteCall(c *ast.CallExpr) ast.Expr {
	if path, name := in.pkgFunc(c); path != "" {
		switch {
		case in.rules.Dial && path == "net" && name == "DialTimeout":
			in.stat("dial")
			return vcall("Dial", c.Args...)
		case in.rules.NumCPU && path == "runtime" && name == "NumCPU":
			in.stat("numcpu")
			return vcall("NumCPU")
		case in.rules.NumCPU && path == "runtime" && name == "GOMAXPROCS":
			in.stat("gomaxprocs")
			return vcall("GOMAXPROCS", c.Args...)
		case in.rules.Conc && path == "time" && name == "AfterFunc":
			in.stat("afterfunc")
			return vcall("AfterFunc", c.Args...)
		case in.rules.Rand && randPkgs[path]:
			if v, ok := randFuncs[name]; ok {
				in.stat("rand")
				return vcall(v, c.Args...)
			}
			if name != "New" && name != "NewSource" {
				in.unhandled(c, "rand func "+path+"."+name)
			}
		case in.rules.FS:
			if m, ok := fsFuncs[path]; ok {
				if v, ok := m[name]; ok {
					in.stat("fs." + name)
					return vcall(v, c.Args...)
				}
			}
			if fsUnsupported[path][name] {
				in.unhandled(c, "file-system call without a simulated counterpart: "+path+"."+name)
			}
		}
		return nil
	}
	if !in.rules.Conc {
		return nil
	}
	sel, ok := c.Fun.(*ast.SelectorExpr)
	if !ok {
		return nil
	}
	s := in.p.TypesInfo.Selections[sel]
	if s == nil {
		return nil
	}
	fn, ok := s.Obj().(*types.Func)
	if !ok || fn.Pkg() == nil {
		return nil
	}
	pkgPath := fn.Pkg().Path()
	if pkgPath == "golang.org/x/sync/errgroup" && fn.Name() == "Go" {
		in.stat("errgroup.Go")
		c.Args[0] = vcall("WrapErr", c.Args[0])
		in.changed = true
		return nil
	}
	if pkgPath != "sync" {
		return nil
	}
	recv := fn.Type().(*types.Signature).Recv().Type()
	if p, ok := recv.(*types.Pointer); ok {
		recv = p.Elem()
	}
	named, ok := recv.(*types.Named)
	if !ok || types.IsInterface(named) {
		// interface method e.g. sync.Locker
		switch fn.Name() {
		case "Lock":
			in.stat("Locker.Lock")
			return vcall("Lock", sel.X, in.site(c))
		case "Unlock":
			in.stat("Locker.Unlock")
			return vcall("Unlock", sel.X)
		}
		return nil
	}
	key := named.Obj().Name() + "." + fn.Name()
	// an embedded mutex reached through promotion would need the implicit field path
	if len(s.Index()) > 1 {
		in.unhandled(c, "promoted sync method "+key)
		return nil
	}
	switch key {
	case "Mutex.Lock", "RWMutex.Lock":
		in.stat(key)
		return vcall("Lock", in.addr(sel.X), in.site(c))
	case "Mutex.TryLock", "RWMutex.TryLock":
		in.stat(key)
		return vcall("TryLock", in.addr(sel.X), in.site(c))
	case "Mutex.Unlock", "RWMutex.Unlock":
		in.stat(key)
		return vcall("Unlock", in.addr(sel.X))
	case "RWMutex.RLock":
		in.stat(key)
		return vcall("RLock", in.addr(sel.X), in.site(c))
	case "RWMutex.RUnlock":
		in.stat(key)
		return vcall("RUnlock", in.addr(sel.X))
	case "Cond.Wait":
		in.stat(key)
		return vcall("CondWait", in.addr(sel.X), in.site(c))
	case "Cond.Signal":
		in.stat(key)
		return vcall("CondSignal", in.addr(sel.X))
	case "Cond.Broadcast":
		in.stat(key)
		return vcall("CondBroadcast", in.addr(sel.X))
	case "Once.Do":
		in.stat(key)
		return vcall("OnceDo", in.addr(sel.X), c.Args[0])
	case "Pool.Get":
		in.stat(key)
		return vcall("PoolGet", in.addr(sel.X))
	case "Pool.Put":
		in.stat(key)
		return vcall("PoolPut", in.addr(sel.X), c.Args[0])
	case "WaitGroup.Add", "WaitGroup.Done", "WaitGroup.Wait", "WaitGroup.Go":
		if fn.Name() == "Go" {
			in.unhandled(c, "WaitGroup.Go")
		}
		return nil // Wait gets a post-yield at statement level
	}
	in.unhandled(c, "sync method "+key)
	return nil
}

// isBlockingCallStmt: statement-level calls after which a post-wake yield is inserted.
func (in *inst) isBlockingCallStmt(call *ast.CallExpr) bool {
	if path, name := in.pkgFunc(call); path == "time" && name == "Sleep" {
		return true
	}
	sel, ok := call.Fun.(*ast.SelectorExpr)
	if !ok {
		return false
	}
	s := in.p.TypesInfo.Selections[sel]
	if s == nil {
		return false
	}
	fn, ok := s.Obj().(*types.Func)
	if !ok || fn.Pkg() == nil {
		return false
	}
	if fn.Pkg().Path() == "sync" && fn.Name() == "Wait" {
		recv := fn.Type().(*types.Signature).Recv().Type().String()
		return strings.Contains(recv, "WaitGroup")
	}
	if fn.Pkg().Path() == "golang.org/x/sync/errgroup" && fn.Name() == "Wait" {
		return true
	}
	return false
}

func (in *inst) rewriteGo(g *ast.GoStmt) ast.Stmt {
	in.n++
	suffix := fmt.Sprint(in.n)
	var pre []ast.Stmt
	call := g.Call
	var fun ast.Expr = call.Fun
	if _, isLit := call.Fun.(*ast.FuncLit); !isLit {
		fv := ast.NewIdent("__vf" + suffix)
		pre = append(pre, &ast.AssignStmt{Lhs: []ast.Expr{fv}, Tok: token.DEFINE, Rhs: []ast.Expr{call.Fun}})
		fun = fv
	}
	var args []ast.Expr
	for i, a := range call.Args {
		if tv, ok := in.p.TypesInfo.Types[a]; ok && (tv.Value != nil || tv.IsNil()) {
			args = append(args, a)
			continue
		}
		av := ast.NewIdent(fmt.Sprintf("__va%s_%d", suffix, i))
		pre = append(pre, &ast.AssignStmt{Lhs: []ast.Expr{av}, Tok: token.DEFINE, Rhs: []ast.Expr{a}})
		args = append(args, av)
	}
	gv := ast.NewIdent("__vg" + suffix)
	pre = append(pre, &ast.AssignStmt{Lhs: []ast.Expr{gv}, Tok: token.DEFINE, Rhs: []ast.Expr{vcall("Spawn")}})
	body := &ast.BlockStmt{List: []ast.Stmt{
		&ast.ExprStmt{X: vcall("Start", gv)},
		&ast.DeferStmt{Call: vcall("Exit", gv)},
		&ast.ExprStmt{X: &ast.CallExpr{Fun: fun, Args: args, Ellipsis: call.Ellipsis}},
	}}
	newGo := &ast.GoStmt{Call: &ast.CallExpr{Fun: &ast.FuncLit{Type: &ast.FuncType{Params: &ast.FieldList{}}, Body: body}}}
	in.stat("go")
	return &ast.BlockStmt{List: append(pre, newGo)}
}

// rewriteSelect turns a select into registration statements + a switch over vrt.Sel.Wait.
func (in *inst) rewriteSelect(sel *ast.SelectStmt) (pre []ast.Stmt, sw *ast.SwitchStmt, ok bool) {
	in.n++
	suffix := fmt.Sprint(in.n)
	sv := ast.NewIdent("__vs" + suffix)
	pre = append(pre, &ast.AssignStmt{Lhs: []ast.Expr{sv}, Tok: token.DEFINE, Rhs: []ast.Expr{vcall("NewSel", in.site(sel))}})
	hasDefault := false
	var clauses []ast.Stmt
	idx := 0
	for _, st := range sel.Body.List {
		cc := st.(*ast.CommClause)
		if cc.Comm == nil {
			hasDefault = true
			clauses = append(clauses, &ast.CaseClause{List: nil, Body: cc.Body})
			continue
		}
		caseLit := &ast.BasicLit{Kind: token.INT, Value: fmt.Sprint(idx)}
		var body []ast.Stmt
		switch comm := cc.Comm.(type) {
		case *ast.SendStmt:
			pre = append(pre, &ast.ExprStmt{X: vcall("SelSend", sv, comm.Chan, comm.Value)})
		case *ast.ExprStmt:
			u, isU := ast.Unparen(comm.X).(*ast.UnaryExpr)
			if !isU || u.Op != token.ARROW {
				in.unhandled(comm, "select comm expr")
				return nil, nil, false
			}
			pre = append(pre, &ast.ExprStmt{X: vcall("SelRecv", sv, u.X)})
		case *ast.AssignStmt:
			if len(comm.Rhs) != 1 {
				in.unhandled(comm, "select comm assign")
				return nil, nil, false
			}
			u, isU := ast.Unparen(comm.Rhs[0]).(*ast.UnaryExpr)
			if !isU || u.Op != token.ARROW {
				in.unhandled(comm, "select comm assign rhs")
				return nil, nil, false
			}
			rv := ast.NewIdent(fmt.Sprintf("__vr%s_%d", suffix, idx))
			pre = append(pre, &ast.AssignStmt{Lhs: []ast.Expr{rv}, Tok: token.DEFINE, Rhs: []ast.Expr{vcall("SelRecv", sv, u.X)}})
			rhs := []ast.Expr{&ast.SelectorExpr{X: rv, Sel: ast.NewIdent("V")}}
			if len(comm.Lhs) == 2 {
				rhs = append(rhs, &ast.SelectorExpr{X: ast.NewIdent(rv.Name), Sel: ast.NewIdent("OK")})
			}
			allBlank := true
			for _, l := range comm.Lhs {
				if id, ok := l.(*ast.Ident); !ok || id.Name != "_" {
					allBlank = false
				}
			}
			tok := comm.Tok
			if allBlank {
				tok = token.ASSIGN
			}
			body = append(body, &ast.AssignStmt{Lhs: comm.Lhs, Tok: tok, Rhs: rhs})
		default:
			in.unhandled(cc, "select comm kind")
			return nil, nil, false
		}
		body = append(body, cc.Body...)
		clauses = append(clauses, &ast.CaseClause{List: []ast.Expr{caseLit}, Body: body})
		idx++
	}
	def := "false"
	if hasDefault {
		def = "true"
	} else {
		// keeps the switch a terminating statement when every case returns (as the select was)
		clauses = append(clauses, &ast.CaseClause{List: nil, Body: []ast.Stmt{&ast.ExprStmt{X: &ast.CallExpr{Fun: ast.NewIdent("panic"), Args: []ast.Expr{&ast.BasicLit{Kind: token.STRING, Value: `"vrt: unreachable select default"`}}}}}})
	}
	sw = &ast.SwitchStmt{
		Tag:  &ast.CallExpr{Fun: &ast.SelectorExpr{X: sv, Sel: ast.NewIdent("Wait")}, Args: []ast.Expr{ast.NewIdent(def)}},
		Body: &ast.BlockStmt{List: clauses},
	}
	in.stat("select")
	return pre, sw, true
}

func (in *inst) rewrite(f *ast.File) {
	astutil.Apply(f, nil, func(c *astutil.Cursor) bool {
		switch n := c.Node().(type) {
		case *ast.CallExpr:
			if r := in.rewriteCall(n); r != nil {
				in.changed = true
				c.Replace(r)
			}
		case *ast.GoStmt:
			if !in.rules.Conc {
				break
			}
			in.changed = true
			c.Replace(in.rewriteGo(n))
		case *ast.SelectStmt:
			if !in.rules.Conc {
				break
			}
			if len(n.Body.List) == 0 {
				in.unhandled(n, "empty select")
				break
			}
			pre, sw, ok := in.rewriteSelect(n)
			if !ok {
				break
			}
			in.changed = true
			if ls, isL := c.Parent().(*ast.LabeledStmt); isL {
				in.labelPre[ls] = pre
				c.Replace(sw)
			} else if c.Index() >= 0 {
				for _, p := range pre {
					c.InsertBefore(p)
				}
				c.Replace(sw)
			} else {
				c.Replace(&ast.BlockStmt{List: append(pre, sw)})
			}
		case *ast.LabeledStmt:
			if pre, ok := in.labelPre[n]; ok {
				if c.Index() >= 0 {
					for _, p := range pre {
						c.InsertBefore(p)
					}
				} else {
					in.unhandled(n, "labeled select outside a statement list")
				}
			}
		case *ast.RangeStmt:
			if in.rules.Conc && in.isChan(n.X) {
				in.changed = true
				in.stat("rangechan")
				n.Body.List = append([]ast.Stmt{in.yield(n)}, n.Body.List...)
			} else if in.rules.MapRange && in.isMap(n.X) {
				in.changed = true
				in.stat("maprange")
				fn := "MapRange"
				if n.Value == nil {
					fn = "MapRangeKeys"
				}
				if n.Key == nil {
					fn = "MapRangeKeys"
				}
				n.X = vcall(fn, n.X, in.site(n))
			}
		case *ast.SendStmt:
			if !in.rules.Conc {
				break
			}
			if _, inSel := c.Parent().(*ast.CommClause); inSel {
				break
			}
			if c.Index() >= 0 {
				in.changed = true
				in.stat("send")
				c.InsertAfter(in.yield(n))
			} else {
				in.unhandled(n, "send outside a statement list")
			}
		case *ast.ExprStmt:
			if !in.rules.Conc {
				break
			}
			if _, inSel := c.Parent().(*ast.CommClause); inSel {
				break
			}
			if isRecv(n.X) {
				if c.Index() >= 0 {
					in.changed = true
					in.stat("recvstmt")
					c.InsertAfter(in.yield(n))
				} else {
					in.unhandled(n, "recv outside a statement list")
				}
			} else if call, ok := n.X.(*ast.CallExpr); ok && c.Index() >= 0 && in.isBlockingCallStmt(call) {
				in.changed = true
				in.stat("blockingcall")
				c.InsertAfter(in.yield(n))
			}
		case *ast.AssignStmt:
			if !in.rules.Conc {
				break
			}
			if _, inSel := c.Parent().(*ast.CommClause); inSel {
				break
			}
			if len(n.Rhs) == 1 && isRecv(n.Rhs[0]) {
				if c.Index() >= 0 {
					in.changed = true
					in.stat("recvassign")
					c.InsertAfter(in.yield(n))
				} else {
					in.unhandled(n, "recv assign outside a statement list")
				}
			} else if len(n.Rhs) == 1 {
				// err := g.Wait()
				if call, ok := n.Rhs[0].(*ast.CallExpr); ok && c.Index() >= 0 && in.isBlockingCallStmt(call) {
					in.changed = true
					in.stat("blockingcall")
					c.InsertAfter(in.yield(n))
				}
			}
		case *ast.UnaryExpr:
			if in.rules.Conc && n.Op == token.ARROW {
				switch p := c.Parent().(type) {
				case *ast.ExprStmt:
				case *ast.AssignStmt:
					if len(p.Rhs) != 1 {
						in.changed = true
						in.stat("nestedrecv")
						c.Replace(vcall("AfterRecv", n, in.site(n)))
					}
				case *ast.ParenExpr:
				default:
					// a receive inside a larger expression (return <-done, f(<-ch)): the value passes through a helper that
					// yields once the receive has completed, as the statement forms do with a yield after the statement
					in.changed = true
					in.stat("nestedrecv")
					c.Replace(vcall("AfterRecv", n, in.site(n)))
				}
			}
		case *ast.ReturnStmt:
			if in.rules.Conc {
				for _, r := range n.Results {
					if call, ok := r.(*ast.CallExpr); ok && in.isBlockingCallStmt(call) {
						// return g.Wait(): the goroutine returns to its caller's next yield; acceptable
						in.stat("return-blockingcall")
					}
				}
			}
		}
		return true
	})
}

// pruneImports removes imports that the rewrite orphaned (decided from identifiers, not guessed
// from the import path's last element).
func (in *inst) pruneImports(f *ast.File) {
	used := map[string]bool{}
	ast.Inspect(f, func(n ast.Node) bool {
		if sel, ok := n.(*ast.SelectorExpr); ok {
			if id, ok := sel.X.(*ast.Ident); ok {
				if pn, ok := in.p.TypesInfo.Uses[id].(*types.PkgName); ok {
					used[pn.Imported().Path()+"\x00"+pn.Name()] = true
				}
			}
		}
		return true
	})
	var del [][2]string
	for _, imp := range f.Imports {
		path := strings.Trim(imp.Path.Value, "\"")
		if path == VrtPath {
			continue
		}
		if imp.Name != nil && (imp.Name.Name == "_" || imp.Name.Name == ".") {
			continue
		}
		obj := in.p.TypesInfo.Implicits[imp]
		if imp.Name != nil {
			obj = in.p.TypesInfo.Defs[imp.Name]
		}
		pn, ok := obj.(*types.PkgName)
		if !ok {
			continue
		}
		if !used[path+"\x00"+pn.Name()] {
			name := ""
			if imp.Name != nil {
				name = imp.Name.Name
			}
			del = append(del, [2]string{name, path})
		}
	}
	for _, d := range del {
		if d[0] != "" {
			astutil.DeleteNamedImport(in.fset, f, d[0], d[1])
		} else {
			astutil.DeleteImport(in.fset, f, d[1])
		}
	}
}
