package main

import "verif/sim/instrument"

const stdAssume = "the Go runtime, testing/synctest (fake clock, quiescence) and the standard library behave as documented"

func registerAll() {
	conc := instrument.Rules{Conc: true}
	// ---- engine sem ----
	builds["sem"] = &build{name: "sem", pkg: modPath + "/internal/vkgo/pkg/semaphore", harness: []string{"sem/zz_verif_sem_test.go"},
		patterns: []string{"./internal/vkgo/pkg/semaphore"}, rules: conc}
	builds["sem-race"] = &build{name: "sem-race", pkg: modPath + "/internal/vkgo/pkg/semaphore", harness: []string{"sem/zz_verif_sem_test.go"}, race: true}
	properties["C42"] = &property{id: "C42", engine: "sem", level: "exploration",
		configs: []config{
			{name: "sem", build: "sem", params: map[string]any{"mode": "sim"}, quick: tierCfg{wallSec: 25, detPct: 2}, thorough: tierCfg{wallSec: 600, detPct: 1}},
			{name: "sem-race", build: "sem-race", params: map[string]any{"mode": "race"}, quick: tierCfg{wallSec: 8}, thorough: tierCfg{wallSec: 120}},
		},
		rule: "each evaluation is one simulated run: a seeded scenario (semaphore size 0..6, 2..5 clients x <=8 ops of acquire[none|deadline|cancel]/try/release/force/setsize/observe) executed on the real, source-rewritten semaphore.Weighted under a seeded token scheduler (every Lock, channel op, select and goroutine start is a scheduling point; clock advance is a choice). Oracles: porcupine linearizability against a (size,cur) model, first-waiter liveness at every quiescent point, no panic, cur>=0. A run is non-trivial if at least one scheduling decision had >=2 runnable goroutines and at least one operation completed; distinct = distinct sha256 of the (goroutine,site) pick sequence plus clock advances (config sem), distinct scenario (config sem-race).",
		assumptions: []string{stdAssume, "token hand-off hides data races: races are looked for only in config sem-race (un-rewritten package, -race, runtime scheduling)",
			"porcupine v1.3.0 is a correct linearizability checker; results 'Unknown' (timeout) are counted, never reported",
			"contract violations (negative n, over-release) and WaitEmpty are outside the property and not generated"},
		components: map[string]string{"semaphore.Weighted": "real code (source-rewritten at build time: sync.Mutex, channels, select -> simulator seams)", "callers": "simulated clients", "clock": "testing/synctest fake clock", "goroutine scheduling": "simulator (config sem) / Go runtime (config sem-race)"},
	}

	// ---- engine udp ----
	builds["udp"] = &build{name: "udp", pkg: modPath + "/pkg/rpc/udp", harness: []string{"udp/zz_verif_udp_test.go"}}
	udpComponents := map[string]string{
		"connection state machines, handshake/generation logic, sliding windows, AcksToSend, datagram build/parse (AES-IGE, CRC32C), memory accounting, timer queues, algo.TreeMap/CircularSlice": "real code (unmodified)",
		"the eight Transport goroutine loops": "stub: engine-owned step functions mirroring one iteration of goWrite/goRead/goResend/goAck/goResendRequest/goRegenerate line by line (timers fire at their deadline on the fake clock); goSend/goReceive are the datagram bag",
		"UDP socket":                          "stub: per-node datagram bag owned by the simulator (drop, duplicate, reorder, corrupt, delay)",
		"clock":                               "testing/synctest fake clock (resend deadlines order the timer heap)",
		"crypto/rand":                         "testing/cryptotest.SetGlobalRandom (seeded)",
	}
	properties["C36"] = &property{id: "C36", engine: "udp", level: "exploration",
		configs: []config{
			{name: "udp-faults", build: "udp", params: map[string]any{"mode": "norestart", "focus": "C36"}, quick: tierCfg{wallSec: 22, detPct: 2}, thorough: tierCfg{wallSec: 900, detPct: 1}},
			{name: "udp-faultfree", build: "udp", params: map[string]any{"mode": "norestart", "focus": "C36", "fault_free": true}, quick: tierCfg{wallSec: 6, detPct: 2}, thorough: tierCfg{wallSec: 200, detPct: 1}},
			{name: "udp-restart", build: "udp", params: map[string]any{"mode": "restart", "focus": "C36"}, quick: tierCfg{wallSec: 12, detPct: 2}, thorough: tierCfg{wallSec: 600, detPct: 1}},
		},
		rule: "each evaluation is one simulated run: 2..6 real udp.Transport nodes, 1..40 unique messages, per-run knobs (MaxChunkSize 8..64, memory limit 1..4 max messages, stream-like delivery on/off) and a seeded event sequence (submit, write/read/enc-header steps with a chosen datagram = reordering, timer expirations, clock jumps, datagram drop/duplicate/corrupt; config udp-restart adds regenerate-timer expiry) with a per-run random subset of fault kinds; after every event the transport's own invariant checker, memory limit, prefix monotonicity and the exactly-once/intact delivery oracle run; then a fault-free settle phase with a total round bound, exact multiset equality, memory fully released, allocator balanced (udp-restart: memory balance, invariants, no panic only). Non-trivial = at least one fault actually fired and at least one message was delivered; distinct = distinct event-log hash.",
		assumptions: []string{stdAssume, "the goroutine loops of Transport.Run, real sockets and sendmmsg paths are not exercised (the property is stated over the step simulator)",
			"timer expirations are events that may fire at any time, as in the repository's simulator", "C37-class findings made in these runs are reported by the C37 check, not here"},
		components: udpComponents,
	}
	properties["C37"] = &property{id: "C37", engine: "udp", level: "exploration",
		configs: []config{
			{name: "udp-acks-monitor", build: "udp", params: map[string]any{"mode": "norestart", "focus": "C37"}, quick: tierCfg{wallSec: 15, detPct: 2}, thorough: tierCfg{wallSec: 600, detPct: 1}},
			{name: "udp-acks-direct", build: "udp", params: map[string]any{"mode": "acks", "focus": "C37"}, quick: tierCfg{wallSec: 6, detPct: 2}, thorough: tierCfg{wallSec: 200, detPct: 1}},
		},
		rule: "config udp-acks-monitor: the same faulty multi-node runs as C36; the harness sees every enc header handed to a writer (hence every AddAckRange the next write step performs) and after each write step compares the connection's AcksToSend with a reference interval set: represented set == union of recorded ranges, shape prefix + sorted/disjoint/non-adjacent ranges, BuildAck acknowledges only members, BuildNegativeAck requests only non-members — the histories are those that loss, duplication and reordering actually produce. config udp-acks-direct: the same checks on a bare AcksToSend fed seeded range sequences over domains of <=64 numbers at 0, mid-range and just below 2^32-1 (no wrap); this part has no fault or schedule in it. Non-trivial = a fault fired and a message was delivered (monitor) / >2 ranges or a hole (direct); distinct = distinct event-log hash.",
		assumptions: []string{stdAssume, "sequence-number wrap-around is excluded, as the property states"},
		components:  udpComponents,
	}
}
