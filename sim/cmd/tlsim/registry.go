package main

import "verif/sim/instrument"

const stdAssume = "the Go runtime, testing/synctest (fake clock, quiescence) and the standard library behave as documented"

func registerAll() {
	conc := instrument.Rules{Conc: true}
	// ---- engine sem ----
	semHarness := []string{"sem/zz_verif_sem_test.go", "sem/zz_verif_sem_peek_test.go"}
	semAlt := map[string]string{"sem/zz_verif_sem_peek_test.go": "sem/blackbox/zz_verif_sem_peek_test.go"}
	builds["sem"] = &build{name: "sem", pkg: modPath + "/internal/vkgo/pkg/semaphore", harness: semHarness, altHarness: semAlt,
		patterns: []string{"./internal/vkgo/pkg/semaphore"}, rules: conc}
	builds["sem-race"] = &build{name: "sem-race", pkg: modPath + "/internal/vkgo/pkg/semaphore", harness: semHarness, altHarness: semAlt, race: true}
	properties["C42"] = &property{id: "C42", engine: "sem", level: "exploration",
		configs: []config{
			{name: "sem", build: "sem", params: map[string]any{"mode": "sim"}, quick: tierCfg{wallSec: 25, detPct: 2}, thorough: tierCfg{wallSec: 600, detPct: 1}},
			{name: "sem-race", build: "sem-race", params: map[string]any{"mode": "race"}, quick: tierCfg{wallSec: 8}, thorough: tierCfg{wallSec: 120}},
		},
		rule: "each evaluation is one simulated run: a seeded scenario (semaphore size 0..6, 2..5 clients x <=8 ops of acquire[none|deadline|cancel]/try/release/force/setsize/observe) executed on the real, source-rewritten semaphore.Weighted under a seeded token scheduler (every Lock, channel op, select and goroutine start is a scheduling point; clock advance is a choice). Oracles: porcupine linearizability against a (size,cur) model, first-waiter liveness at every quiescent point, no panic, cur>=0. A run is non-trivial if at least one scheduling decision had >=2 runnable goroutines and at least one operation completed; distinct = distinct sha256 of the (goroutine,site) pick sequence plus clock advances (config sem), distinct scenario (config sem-race).",
		assumptions: []string{stdAssume, "token hand-off hides data races: races are looked for only in config sem-race (un-rewritten package, -race, runtime scheduling)",
			"porcupine v1.3.0 is a correct linearizability checker; results 'Unknown' (timeout) are counted, never reported",
			"contract violations (negative n, over-release) and WaitEmpty are outside the property and not generated"},
		components: map[string]string{"semaphore.Weighted": "real code (source-rewritten at build time: sync.Mutex, channels, select -> simulator seams)", "callers": "simulated clients", "clock": "testing/synctest fake clock", "goroutine scheduling": "simulator (config sem) / Go runtime (config sem-race)"},
	}

	// ---- engine udp ----
	builds["udp"] = &build{name: "udp", pkg: modPath + "/pkg/rpc/udp", harness: []string{"udp/zz_verif_udp_test.go"}}
	udpComponents := map[string]string{
		"connection state machines, handshake/generation logic, sliding windows, AcksToSend, datagram build/parse (AES-IGE, CRC32C), memory accounting, timer queues, algo.TreeMap/CircularSlice": "real code (unmodified)",
		"the eight Transport goroutine loops": "stub: engine-owned step functions mirroring one iteration of goWrite/goRead/goResend/goAck/goResendRequest/goRegenerate line by line (timers fire at their deadline on the fake clock); goSend/goReceive are the datagram bag",
		"UDP socket":                          "stub: per-node datagram bag owned by the simulator (drop, duplicate, reorder, corrupt, delay)",
		"clock":                               "testing/synctest fake clock (resend deadlines order the timer heap)",
		"crypto/rand":                         "testing/cryptotest.SetGlobalRandom (seeded)",
	}
	properties["C36"] = &property{id: "C36", engine: "udp", level: "exploration",
		configs: []config{
			{name: "udp-faults", build: "udp", params: map[string]any{"mode": "norestart", "focus": "C36"}, quick: tierCfg{wallSec: 22, detPct: 2}, thorough: tierCfg{wallSec: 900, detPct: 1}},
			{name: "udp-faultfree", build: "udp", params: map[string]any{"mode": "norestart", "focus": "C36", "fault_free": true}, quick: tierCfg{wallSec: 6, detPct: 2}, thorough: tierCfg{wallSec: 200, detPct: 1}},
			{name: "udp-restart", build: "udp", params: map[string]any{"mode": "restart", "focus": "C36"}, quick: tierCfg{wallSec: 12, detPct: 2}, thorough: tierCfg{wallSec: 600, detPct: 1}},
		},
		rule: "each evaluation is one simulated run: 2..6 real udp.Transport nodes, 1..40 unique messages, per-run knobs (MaxChunkSize 8..64, memory limit 1..4 max messages, stream-like delivery on/off) and a seeded event sequence (submit, write/read/enc-header steps with a chosen datagram = reordering, timer expirations, clock jumps, datagram drop/duplicate/corrupt; config udp-restart adds regenerate-timer expiry) with a per-run random subset of fault kinds; after every event the transport's own invariant checker, memory limit, prefix monotonicity and the exactly-once/intact delivery oracle run; then a fault-free settle phase with a total round bound, exact multiset equality, memory fully released, allocator balanced (udp-restart: memory balance, invariants, no panic only). Non-trivial = at least one fault actually fired and at least one message was delivered; distinct = distinct event-log hash.",
		assumptions: []string{stdAssume, "the goroutine loops of Transport.Run, real sockets and sendmmsg paths are not exercised (the property is stated over the step simulator)",
			"timer expirations are events that may fire at any time, as in the repository's simulator", "C37-class findings made in these runs are reported by the C37 check, not here"},
		components: udpComponents,
	}
	properties["C37"] = &property{id: "C37", engine: "udp", level: "exploration",
		configs: []config{
			{name: "udp-acks-monitor", build: "udp", params: map[string]any{"mode": "norestart", "focus": "C37"}, quick: tierCfg{wallSec: 15, detPct: 2}, thorough: tierCfg{wallSec: 600, detPct: 1}},
			{name: "udp-acks-direct", build: "udp", params: map[string]any{"mode": "acks", "focus": "C37"}, quick: tierCfg{wallSec: 6, detPct: 2}, thorough: tierCfg{wallSec: 200, detPct: 1}},
		},
		rule: "config udp-acks-monitor: the same faulty multi-node runs as C36; the harness sees every enc header handed to a writer (hence every AddAckRange the next write step performs) and after each write step compares the connection's AcksToSend with a reference interval set: represented set == union of recorded ranges, shape prefix + sorted/disjoint/non-adjacent ranges, BuildAck acknowledges only members, BuildNegativeAck requests only non-members — the histories are those that loss, duplication and reordering actually produce. config udp-acks-direct: the same checks on a bare AcksToSend fed seeded range sequences over domains of <=64 numbers at 0, mid-range and just below 2^32-1 (no wrap); this part has no fault or schedule in it. Non-trivial = a fault fired and a message was delivered (monitor) / >2 ranges or a hole (direct); distinct = distinct event-log hash.",
		assumptions: []string{stdAssume, "sequence-number wrap-around is excluded, as the property states"},
		components:  udpComponents,
	}

	// ---- engine rpc ----
	rpcRules := instrument.Rules{Conc: true, MapRange: true, Dial: true, Rand: true, NumCPU: true} // NumCPU: the handshake semaphore is sized from GOMAXPROCS at package init; behind the seam it is 1+1 whatever the host has
	rpcHarness := []string{"rpc/zz_verif_rpc_test.go", "rpc/zz_verif_frame_test.go", "rpc/zz_verif_calls_test.go"}
	builds["rpc"] = &build{name: "rpc", pkg: modPath + "/pkg/rpc", harness: rpcHarness,
		extra:    map[string]string{"internal/vkgo/pkg/semaphore/zz_verif_peek.go": "harness/semaccess/zz_verif_peek.go"},
		patterns: []string{"./pkg/rpc", "./internal/vkgo/pkg/semaphore"}, rules: rpcRules}
	builds["rpc-race"] = &build{name: "rpc-race", pkg: modPath + "/pkg/rpc", harness: rpcHarness, race: true,
		extra:    map[string]string{"internal/vkgo/pkg/semaphore/zz_verif_peek.go": "harness/semaccess/zz_verif_peek.go"},
		patterns: []string{"./pkg/rpc"}, rules: instrument.Rules{Dial: true, Rand: true}}
	rpcComponents := map[string]string{
		"PacketConn framing, crypto reader/writer, nonce/handshake exchange, ping/pong": "real code (source-rewritten at build time)",
		"ClientImpl/clientConn, Server (accept, handshake, receive/send loops, worker pool, memory semaphores, shutdown), semaphore.Weighted": "real code (source-rewritten at build time)",
		"TCP/Unix sockets": "stub: vrt/simnet (seeded segmentation, latency, short reads, corruption, reset, stall, refusal)",
		"clock":            "testing/synctest fake clock",
		"crypto/rand":      "testing/cryptotest.SetGlobalRandom (seeded)",
		"sync.Pool":        "stub: per-run reuse policy (LIFO / FIFO / drop / seeded)",
		"goroutine scheduling": "simulator (token scheduler); Go runtime in the -race configuration",
		"RPC over UDP, hijack, memcached stats": "not exercised",
	}
	properties["C35"] = &property{id: "C35", engine: "rpc", level: "fault_enumeration",
		configs: []config{
			{name: "frame-faultfree", build: "rpc", params: map[string]any{"kind": "frame", "faults": "none"}, quick: tierCfg{wallSec: 8, detPct: 3}, thorough: tierCfg{wallSec: 240, detPct: 1}},
			{name: "frame-faults", build: "rpc", params: map[string]any{"kind": "frame"}, quick: tierCfg{wallSec: 20, detPct: 3}, thorough: tierCfg{wallSec: 600, detPct: 1}},
			{name: "frame-enumerate", build: "rpc", params: map[string]any{"kind": "frame", "enumerate": true}, quick: tierCfg{wallSec: 10}, thorough: tierCfg{wallSec: 1200}},
		},
		rule: "each evaluation is one scenario: two real PacketConns over a simulated byte stream (encryption none / AES forced / AES because untrusted / none because trusted subnet; protocol 0,1,2; read/write buffers 1..4096; 1..30 packets per direction of length 0..3000 written through a seeded mix of WritePacket, WritePacket2, NoFlush+Flush and header/body.../trailer with seeded body splits; stream segmentation 1..1500 bytes, short reads, latency jitter; the four goroutines interleaved by the token scheduler). Fault-free: each reader must return exactly the written sequence then io.EOF. A quarter of the fault-free runs are in ping mode: read timeouts 2..6 s, writers that flush and go silent, stream window 256 B..1 MiB, one bounded sleep per reader, so that pings and pongs are written by the reader goroutines concurrently with the writer goroutines of the same end (half of them directed: the reader's deadline falls while its end's writer is blocked in the middle of a packet larger than its write buffer); there the run is ended by closing both connections once everything was read, and the oracle is all packets, unaltered, in order. A handshake rejected by the documented clock check after a simulated stall of more than 30 s is an environment fault and is skipped (counted). A fault-free run that blocks for ever after the handshake is a violation. frame-faults: one corruption (seeded offset after the handshake, masks 0x01/0x80/0xFF/one bit/random) or one reset per evaluation; the reader must never return an altered packet and must report an error. frame-enumerate: for each sampled small scenario EVERY byte offset after the handshake of both directions x masks {0x01,0x80,0xFF} is re-run under the same schedule tape (the single-fault space of that scenario is enumerated; 'faulted re-runs' in the counters). Non-trivial = at least one contended scheduling decision and at least one packet round-tripped; distinct = distinct schedule+fault signature.",
		assumptions: []string{stdAssume, "a corrupted cipher block could be accepted by the 32-bit CRC with probability 2^-32 (the seeded crypto/rand makes even that replayable)",
			"'without the encrypted handshake' = the unencrypted outcome of the nonce/handshake exchange (a connection cannot carry packets before it)", "in ping mode a peer always answers within the timeout (sleeps are bounded by a quarter of it, the clock moves only when every goroutine is blocked): dead-peer detection itself is exercised by the C38 stall faults, not here"},
		components: rpcComponents,
	}

	callsAssume := []string{stdAssume, "token hand-off hides data races: the race clause of C38 is decided by config rpc-race (un-rewritten goroutine scheduling, -race)",
		"RPC over UDP, hijack and memcached-stats paths are not exercised; the long-poll API is exercised over TCP only (StartLongpoll from the sync handler, FinishLongpoll, empty response at 7/8 of the timeout, cancellation)", "liveness is judged only after the last fault: 12 simulated minutes without completion while the server serves and every gate is open"}
	properties["C38"] = &property{id: "C38", engine: "rpc", level: "exploration",
		configs: []config{
			{name: "calls-faultfree", build: "rpc", params: map[string]any{"kind": "calls", "focus": "C38", "faults": "none"}, quick: tierCfg{wallSec: 15, detPct: 3}, thorough: tierCfg{wallSec: 600, detPct: 1}},
			{name: "calls-faults", build: "rpc", params: map[string]any{"kind": "calls", "focus": "C38"}, quick: tierCfg{wallSec: 30, detPct: 3}, thorough: tierCfg{wallSec: 1500, detPct: 1}},
			{name: "rpc-race", build: "rpc-race", params: map[string]any{"kind": "calls", "focus": "C38", "race": true}, quick: tierCfg{wallSec: 15}, thorough: tierCfg{wallSec: 600}},
		},
		rule: "each evaluation is one simulated run: 1..2 real rpc.Server and 1..3 real rpc.Client over the simulated network (tcp4 loopback / tcp4 non-loopback = AES required / unix; forced encryption on/off; protocol 0..2; connection buffers 1..2048), 1..16 concurrent calls (Do and DoCallback; TL1/TL2; actor id; seeded request/response extras; handlers echo / rpc error / plain error / panic / gated by the simulator; context deadlines, custom timeouts, caller cancellation at a seeded step, FailIfNoConnection; rpc errors returned bare or wrapped by an outer error; caller contexts carrying tracing/execution contexts; one run in six has two bursts separated by a quiet period of 61..121 simulated seconds), each carrying a unique token; faults: connection reset, stall (ping/pong and timeouts), dial refusal, Server.Shutdown/Close and Client.Close at seeded simulated times with calls in flight; per-run knobs: stream segmentation, short reads, socket capacity (write blocking), sync.Pool policy, map order, Cond wake order, scheduler strategy, clock-advance probability. Oracle per completed call and bounded-liveness/wind-down oracle at the end (see DESIGN §3.3). Non-trivial = a contended scheduling decision happened and at least one call completed; distinct = distinct schedule+fault signature.",
		assumptions: callsAssume, components: rpcComponents,
	}

	properties["C39"] = &property{id: "C39", engine: "rpc", level: "exploration",
		configs: []config{
			{name: "limits-faultfree", build: "rpc", params: map[string]any{"kind": "calls", "focus": "C39", "faults": "none"}, quick: tierCfg{wallSec: 20, detPct: 3}, thorough: tierCfg{wallSec: 900, detPct: 1}},
			{name: "limits-faults", build: "rpc", params: map[string]any{"kind": "calls", "focus": "C39"}, quick: tierCfg{wallSec: 15, detPct: 3}, thorough: tierCfg{wallSec: 600, detPct: 1}},
		},
		rule: "each evaluation is one simulated run of the C38 workload biased to load: servers with MaxWorkers 1..3, RequestBufSize 32..128 and RequestMemoryLimit 1..4 buffers, 2..40 concurrent requests of seeded sizes (0..3 buffers) from 1..3 clients, most handlers held at a gate that the simulator opens at a seeded simulated time (so the overlap is the simulator's decision). Oracle: at every handler entry the number of executing handlers <= MaxWorkers; at every handler entry and at every quiescent point of the scheduler the request memory accounted by the server's semaphore <= RequestMemoryLimit (read through an overlay-added accessor); bounded liveness: once gates open every call completes (C38 oracle), which turns an accounting leak into a stuck call. One run in six has a second burst after more than the 60 s idle-worker collection. Non-trivial = a contended scheduling decision and at least one completed call; distinct = distinct schedule+fault signature.",
		assumptions: append([]string{"MaxWorkers <= 0 (pool disabled by documentation) is outside the property and not generated"}, callsAssume...), components: rpcComponents,
	}
	properties["C40"] = &property{id: "C40", engine: "rpc", level: "exploration",
		configs: []config{
			{name: "extras-faultfree", build: "rpc", params: map[string]any{"kind": "calls", "focus": "C40", "faults": "none"}, quick: tierCfg{wallSec: 15, detPct: 3}, thorough: tierCfg{wallSec: 600, detPct: 1}},
			{name: "extras-faults", build: "rpc", params: map[string]any{"kind": "calls", "focus": "C40"}, quick: tierCfg{wallSec: 15, detPct: 3}, thorough: tierCfg{wallSec: 600, detPct: 1}},
		},
		rule: "each evaluation is one simulated run of the C38 workload; every call carries a seeded RequestExtra (any subset of 20 optional fields incl. maps, vectors, trace context, execution context), actor id and TL1/TL2 body format, every handler sets a seeded ResponseExtra (any subset of 9 field groups) or an error code/description. Oracle: canonical serialisation (WriteTL1) of what the handler observed == what the client set, after exactly the documented normalisations (CustomTimeoutMs derived from the context deadline / explicit zero cleared; an execution/tracing context carried by the caller's context fills in the corresponding field of a request with an actor id if and only if the request did not set it; response extra masked by the request's flag bits; an *rpc.Error keeps its code and description also when the handler wrapped it; error code 0 becomes Unknown; plain errors arrive as Unknown with their text; panics as Internal); actor id and body format unchanged. The property has no fault of its own: the claim is that it holds end-to-end through the concurrent client and server under every explored schedule, pool reuse pattern (LIFO reuse exposes stale extras), reconnect and fault. Non-trivial = a contended scheduling decision and at least one completed call; distinct = distinct schedule+fault signature.",
		assumptions: append([]string{"no_result requests are refused by the client and not generated", "the codec-level statement (pure function of the input) is not separately claimed"}, callsAssume...), components: rpcComponents,
	}

	// ---- engine gen ----
	genRules := instrument.Rules{Conc: true, MapRange: true, FS: true, NumCPU: true}
	genPatterns := []string{"./cmd/tl2gen", "./cmd/tlgen", "./internal/pure", "./internal/puregen/...", "./internal/purelegacy", "./internal/tlast", "./internal/tlcodegen", "./internal/tlcodegen/codecreator", "./internal/utils"}
	builds["gen2"] = &build{name: "gen2", pkg: modPath + "/cmd/tl2gen", harness: []string{"gen/zz_verif_gen_test.go", "gen/zz_verif_adapter_tl2gen_test.go"}, patterns: genPatterns, rules: genRules}
	builds["gen1"] = &build{name: "gen1", pkg: modPath + "/cmd/tlgen", harness: []string{"gen/zz_verif_gen_test.go", "gen/zz_verif_adapter_tlgen_test.go"}, patterns: genPatterns, rules: genRules}
	genComponents := map[string]string{
		"TL parser, kernel, all generators (go, php, cpp, tlo, canonical, tljson.html), OutDir.Write with its worker pool, legacy WriteToDir, cmd/tl2gen and cmd/tlgen runMain": "real code (source-rewritten at build time: map ranges, file operations, runtime.NumCPU, writer-pool goroutines/locks/channels)",
		"disk": "stub: vrt/simfs (in memory, operation log, EIO/ENOSPC/EACCES/torn write/crash at mutating operation k); reads outside the simulated root fall through to the real disk read-only",
		"process": "one OS process per real generation (the worker re-executes itself), as in real use",
		"goroutine scheduling of the writer pool": "simulator (token scheduler)",
	}
	properties["C15"] = &property{id: "C15", engine: "gen", level: "exploration",
		configs: []config{
			{name: "det-tl2gen", build: "gen2", params: map[string]any{"mode": "c15"}, quick: tierCfg{wallSec: 40}, thorough: tierCfg{wallSec: 1500}},
			{name: "det-tlgen", build: "gen1", params: map[string]any{"mode": "c15"}, quick: tierCfg{wallSec: 25}, thorough: tierCfg{wallSec: 900}},
		},
		rule: "each evaluation: one (schema set, language, option set) triple from the repository's own Makefile targets (go x5 incl. split-internal/TL2/byte versions/random/RPC code, php new+legacy, cpp x3, tlo, canonical, tljson.html, legacy tlo+canonical; plus five triples over synthetic schemas derived from a seed) is generated once as reference (ascending map order at every one of the rewritten map-range sites, writer pool width 1, lowest-id schedule, inputs as listed) and then 2 more times in fresh OS processes, each with a seeded map order policy (descending / seeded shuffle per range execution), writer pool width 1..8, scheduler strategy and tape for the pool's goroutines, and a seeded permutation of the input paths; the resulting file trees on the simulated disk must be byte-identical. A third of the variants generate over the reference output instead of into an empty directory (the everyday regeneration), with the same requirement. runtime.NumCPU and runtime.GOMAXPROCS are both behind the width seam. Non-trivial = at least one variant output was compared; distinct = distinct (triple, variants, output hash) log.",
		assumptions: []string{stdAssume, "schema content: the repository's schema sets, the harness's cycle/directory sets, and small synthetic schemas (eight seed-named types, a mask selects the present ones); general random schema synthesis is C14's subject, not a simulation target",
			"pointer-keyed maps are ordered by a content fingerprint; ties fall back to the runtime's order and are counted (maprange.uncontrolled_ties): they cannot cause a false alarm but weaken exact replay"},
		components: genComponents,
	}
	properties["C16"] = &property{id: "C16", engine: "gen", level: "fault_enumeration",
		configs: []config{
			{name: "outdir-direct", build: "gen2", params: map[string]any{"mode": "c16-direct"}, quick: tierCfg{wallSec: 20, detPct: 2}, thorough: tierCfg{wallSec: 600, detPct: 1}},
			{name: "outdir-direct-enumerate", build: "gen2", params: map[string]any{"mode": "c16-direct", "faults": "none", "enumerate": true}, quick: tierCfg{wallSec: 20}, thorough: tierCfg{wallSec: 900}},
			{name: "outdir-real-tl2gen", build: "gen2", params: map[string]any{"mode": "c16-real"}, quick: tierCfg{wallSec: 30}, thorough: tierCfg{wallSec: 900}},
			{name: "outdir-real-tlgen", build: "gen1", params: map[string]any{"mode": "c16-real"}, quick: tierCfg{wallSec: 20}, thorough: tierCfg{wallSec: 600}},
			{name: "outdir-real-enumerate-tl2gen", build: "gen2", params: map[string]any{"mode": "c16-real", "enumerate": true}, thorough: tierCfg{wallSec: 1200}},
			{name: "outdir-real-enumerate-tlgen", build: "gen1", params: map[string]any{"mode": "c16-real", "enumerate": true}, thorough: tierCfg{wallSec: 900}},
		},
		rule: "each evaluation is a history of 2..6 generations into one directory of the simulated disk, with foreign files planted (root, nested, marker removed, symbolic links to a directory / a file elsewhere / nothing) and disk faults (EIO, ENOSPC, EACCES, torn write, crash at mutating operation k). outdir-direct*: the real OutDir.Write driven with synthetic file maps (files appear, change, stay identical, disappear; nested directories; the documented '..' runtime path) under the token scheduler with writer pool width 1..8; outdir-real-*: the real generators switching between schema/option triples; half of these histories use synthetic schema families that evolve (types appear, disappear, stay). Oracle against a path->content model: success => directory == exactly the generation's files (stale files gone, nested too); unchanged files have zero write operations in the operation log; non-empty directory without marker => refused with zero mutating operations; no mutating operation (by resolved path) outside the output directory except the runtime-library location, and every file that lived outside it is byte-identical afterwards; failure under a fault => only whole old/new files (or a torn prefix). outdir-direct-enumerate: for each sampled history the last generation is re-run with EVERY fault kind at EVERY mutating-operation index (the single-fault space of that history is enumerated), followed by a fault-free generation that must restore exactness or refuse. Non-trivial = at least a second generation ran; distinct = distinct history log.",
		assumptions: []string{stdAssume, "leftover empty directories are tolerated, as the code documents", "the legacy C++ writer deliberately keeps *.o files; histories do not plant them"},
		components:  genComponents,
	}
}
