package main

import "verif/sim/instrument"

const stdAssume = "the Go runtime, testing/synctest (fake clock, quiescence) and the standard library behave as documented"

func registerAll() {
	conc := instrument.Rules{Conc: true}
	// ---- engine sem ----
	builds["sem"] = &build{name: "sem", pkg: modPath + "/internal/vkgo/pkg/semaphore", harness: []string{"sem/zz_verif_sem_test.go"},
		patterns: []string{"./internal/vkgo/pkg/semaphore"}, rules: conc}
	builds["sem-race"] = &build{name: "sem-race", pkg: modPath + "/internal/vkgo/pkg/semaphore", harness: []string{"sem/zz_verif_sem_test.go"}, race: true}
	properties["C42"] = &property{id: "C42", engine: "sem", level: "exploration",
		configs: []config{
			{name: "sem", build: "sem", params: map[string]any{"mode": "sim"}, quick: tierCfg{wallSec: 25, detPct: 2}, thorough: tierCfg{wallSec: 600, detPct: 1}},
			{name: "sem-race", build: "sem-race", params: map[string]any{"mode": "race"}, quick: tierCfg{wallSec: 8}, thorough: tierCfg{wallSec: 120}},
		},
		rule: "each evaluation is one simulated run: a seeded scenario (semaphore size 0..6, 2..5 clients x <=8 ops of acquire[none|deadline|cancel]/try/release/force/setsize/observe) executed on the real, source-rewritten semaphore.Weighted under a seeded token scheduler (every Lock, channel op, select and goroutine start is a scheduling point; clock advance is a choice). Oracles: porcupine linearizability against a (size,cur) model, first-waiter liveness at every quiescent point, no panic, cur>=0. A run is non-trivial if at least one scheduling decision had >=2 runnable goroutines and at least one operation completed; distinct = distinct sha256 of the (goroutine,site) pick sequence plus clock advances (config sem), distinct scenario (config sem-race).",
		assumptions: []string{stdAssume, "token hand-off hides data races: races are looked for only in config sem-race (un-rewritten package, -race, runtime scheduling)",
			"porcupine v1.3.0 is a correct linearizability checker; results 'Unknown' (timeout) are counted, never reported",
			"contract violations (negative n, over-release) and WaitEmpty are outside the property and not generated"},
		components: map[string]string{"semaphore.Weighted": "real code (source-rewritten at build time: sync.Mutex, channels, select -> simulator seams)", "callers": "simulated clients", "clock": "testing/synctest fake clock", "goroutine scheduling": "simulator (config sem) / Go runtime (config sem-race)"},
	}
}
