// tlsim is the driver of the deterministic-simulation checks: it instruments the current working
// tree of /repo, builds a worker test binary through `go test -overlay`, fans runs out to worker
// processes, aggregates statistics into /verif/evidence/<id>.json, verifies any violation by
// replaying its minimised file in a fresh process, and sets the exit code.
//
//	tlsim check <property> quick|thorough
//	tlsim replay <file>
//	tlsim selftest determinism <property>
//
// Exit codes: 0 held; 1 violation (stdout line "VIOLATION property=<id> replay=<path>");
// 2 machinery trouble (build, instrumenter, watchdog, unreproducible) — never reported as a violation.
package main

import (
	"encoding/json"
	"fmt"
	"os"
	"os/exec"
	"path/filepath"
	"sort"
	"strconv"
	"strings"
	"sync"
	"time"

	"verif/sim/instrument"
)

// repoDir is always /repo for registered checks. VERIF_REPO points a triage run at a scratch worktree (used
// while a long run on /repo is in progress); such a run writes its evidence under evidence-triage/ and says so.
var repoDir = func() string {
	if d := os.Getenv("VERIF_REPO"); d != "" {
		return d
	}
	return "/repo"
}()

const (
	goBin   = "/opt/veriftools/go1.26.8/bin/go"
	modPath = "github.com/VKCOM/tl"
)

// verifDir is where harness sources, evidence, replays and known_findings.json live: the directory of
// the ./check script that started us (VERIF_DIR), /verif by default.
var verifDir = func() string {
	if d := os.Getenv("VERIF_DIR"); d != "" {
		return d
	}
	return "/verif"
}()

func die(code int, format string, a ...any) {
	fmt.Fprintf(os.Stderr, "tlsim: "+format+"\n", a...)
	os.Exit(code)
}

func goEnv() []string {
	env := os.Environ()
	env = append(env, "GOFLAGS=-mod=mod", "GOPROXY=off", "GOSUMDB=off", "GOTOOLCHAIN=local", "CGO_ENABLED=1",
		"PATH=/opt/veriftools/go1.26.8/bin:"+os.Getenv("PATH"))
	return env
}

// build describes how one worker binary is produced.
type build struct {
	name      string
	pkg       string           // package whose test binary is the worker
	harness   []string         // files under /verif/harness mapped into pkg's directory
	extra     map[string]string // further overlay-added files: virtual path (rel. to repo) -> file under /verif
	altHarness map[string]string // harness file -> black-box replacement used when the white-box one no longer compiles against the tree (the implementation's private representation changed)
	patterns  []string         // packages to instrument
	rules     instrument.Rules
	race      bool
	tags      string
}

type tierCfg struct {
	runs    int
	wallSec float64
	detPct  int
}

type config struct {
	name   string
	build  string
	params map[string]any
	quick  tierCfg
	thorough tierCfg
	raceCfg bool
}

type property struct {
	id        string
	engine    string
	level     string
	configs   []config
	rule      string
	assumptions []string
	components map[string]string
}

var builds = map[string]*build{}
var properties = map[string]*property{}

type workerCfg struct {
	Property  string         `json:"property"`
	Engine    string         `json:"engine"`
	Config    string         `json:"config"`
	Seed      uint64         `json:"seed"`
	Shard     int            `json:"shard"`
	Shards    int            `json:"shards"`
	Runs      int            `json:"runs"`
	WallSec   float64        `json:"wall_sec"`
	Out       string         `json:"out"`
	ReplayDir string         `json:"replay_dir"`
	Params    map[string]any `json:"params"`
	DetPct    int            `json:"det_pct"`
	Replay    string         `json:"replay"`
	RepoHead  string         `json:"repo_head"`
	NoShrink  bool           `json:"no_shrink"`
	Known     []knownPattern `json:"known"`
}

type knownPattern struct {
	Class string `json:"class"`
	Match string `json:"match"`
}

type workerOut struct {
	Shard        int              `json:"shard"`
	Evaluations  int              `json:"evaluations"`
	Nontrivial   int              `json:"nontrivial"`
	Sigs         []string         `json:"sigs"`
	Steps        int64            `json:"steps"`
	SimTimeNs    int64            `json:"sim_time_ns"`
	Stats        map[string]int64 `json:"stats"`
	Outcomes     map[string]int   `json:"outcomes"`
	NoProgress   int              `json:"no_progress"`
	DetChecked   int              `json:"det_checked"`
	DetMismatch  []string         `json:"det_mismatch"`
	Violations   []string         `json:"violations"`
	KnownHits    int              `json:"known_hits"`
	ViolClasses  []string         `json:"violation_classes"`
	Machinery    []string         `json:"machinery"`
	Samples      []any            `json:"samples"`
	WallSec      float64          `json:"wall_sec"`
	MaxRunnable  int              `json:"max_runnable"`
	ReplayResult *struct {
		Reproduced bool   `json:"reproduced"`
		SameHash   bool   `json:"same_hash"`
		Class      string `json:"class"`
		Msg        string `json:"message"`
		LogSHA256  string `json:"log_sha256"`
	} `json:"replay_result,omitempty"`
	Extra map[string]float64 `json:"extra,omitempty"`
}

type builtWorker struct {
	notes   []string
	bin     string
	instr   *instrument.Report
	seconds float64
}

func repoHead() string {
	out, _ := exec.Command("git", "-C", repoDir, "rev-parse", "--short", "HEAD").Output()
	st, _ := exec.Command("git", "-C", repoDir, "status", "--porcelain").Output()
	h := strings.TrimSpace(string(out))
	if len(strings.TrimSpace(string(st))) > 0 {
		h += "+dirty"
	}
	return h
}

// buildWorker instruments (if needed) and builds the worker test binary into scratch.
func buildWorker(b *build, scratch string) (*builtWorker, error) {
	bw, err := buildWorkerWith(b, scratch, nil)
	if err == nil || len(b.altHarness) == 0 {
		return bw, err
	}
	// A harness file that reads the implementation's private state does not compile any more: the representation
	// changed. That is not a property violation and need not stop the check: the oracles that do not depend on it
	// (linearizability against the reference model, black-box liveness, panics) still decide the property.
	used := map[string]string{}
	for h, alt := range b.altHarness {
		if strings.Contains(err.Error(), filepath.Base(h)+":") {
			used[h] = alt
		}
	}
	if len(used) == 0 {
		return nil, err
	}
	fmt.Fprintf(os.Stderr, "tlsim: NOTE build %s: the white-box accessor no longer compiles against this tree; falling back to the black-box oracles only\n", b.name)
	bw2, err2 := buildWorkerWith(b, scratch, used)
	if err2 != nil {
		return nil, err
	}
	bw2.notes = append(bw2.notes, "white-box accessor ("+strings.Join(keysOf(used), ", ")+") did not compile against this tree; black-box oracles only")
	return bw2, nil
}

func keysOf(m map[string]string) []string {
	var out []string
	for k := range m {
		out = append(out, k)
	}
	sort.Strings(out)
	return out
}

func buildWorkerWith(b *build, scratch string, replace map[string]string) (*builtWorker, error) {
	t0 := time.Now()
	dir := filepath.Join(scratch, "build-"+b.name)
	if err := os.MkdirAll(dir, 0o755); err != nil {
		return nil, err
	}
	overlay := map[string]string{}
	// simulator runtime -> internal/zzverif/vrt
	vrtFiles, _ := filepath.Glob(filepath.Join(verifDir, "sim/vrt/*.go"))
	for _, f := range vrtFiles {
		if strings.HasSuffix(f, "_test.go") {
			continue
		}
		overlay[filepath.Join(repoDir, "internal/zzverif/vrt", filepath.Base(f))] = f
	}
	pkgDir := filepath.Join(repoDir, strings.TrimPrefix(b.pkg, modPath+"/"))
	for _, h := range b.harness {
		src := h
		if alt, ok := replace[h]; ok {
			src = alt
		}
		overlay[filepath.Join(pkgDir, filepath.Base(h))] = filepath.Join(verifDir, "harness", src)
	}
	for virt, real := range b.extra {
		overlay[filepath.Join(repoDir, virt)] = filepath.Join(verifDir, real)
	}
	var rep *instrument.Report
	if len(b.patterns) > 0 {
		var err error
		rep, err = instrument.Run(instrument.Options{RepoDir: repoDir, OutDir: filepath.Join(dir, "rewritten"), Patterns: b.patterns, Rules: b.rules})
		if err != nil {
			return nil, fmt.Errorf("instrument: %v", err)
		}
		if len(rep.Unhandled) > 0 {
			return nil, fmt.Errorf("instrument: constructs without a rewrite rule:\n  %s", strings.Join(rep.Unhandled, "\n  "))
		}
		for k, v := range rep.Overlay {
			overlay[k] = v
		}
	}
	ob, _ := json.MarshalIndent(map[string]any{"Replace": overlay}, "", " ")
	ovPath := filepath.Join(dir, "overlay.json")
	if err := os.WriteFile(ovPath, ob, 0o644); err != nil {
		return nil, err
	}
	// scratch go.mod: the repo's own plus the harness-only requirement (porcupine)
	gm, err := os.ReadFile(filepath.Join(repoDir, "go.mod"))
	if err != nil {
		return nil, err
	}
	gm = append(gm, []byte("\nrequire github.com/anishathalye/porcupine v1.3.0\n")...)
	if err := os.WriteFile(filepath.Join(dir, "go.mod"), gm, 0o644); err != nil {
		return nil, err
	}
	gs, _ := os.ReadFile(filepath.Join(repoDir, "go.sum"))
	extraSum, _ := os.ReadFile(filepath.Join(verifDir, "sim/harness.go.sum"))
	if err := os.WriteFile(filepath.Join(dir, "go.sum"), append(gs, extraSum...), 0o644); err != nil {
		return nil, err
	}
	bin := filepath.Join(dir, "worker.test")
	args := []string{"test", "-c", "-vet=off", "-o", bin, "-modfile=" + filepath.Join(dir, "go.mod"), "-overlay=" + ovPath}
	if b.race {
		args = append(args, "-race")
	}
	if b.tags != "" {
		args = append(args, "-tags", b.tags)
	}
	args = append(args, b.pkg)
	cmd := exec.Command(goBin, args...)
	cmd.Dir = repoDir
	cmd.Env = goEnv()
	out, err := cmd.CombinedOutput()
	if err != nil {
		return nil, fmt.Errorf("go test -c %s failed: %v\n%s", b.pkg, err, out)
	}
	return &builtWorker{bin: bin, instr: rep, seconds: time.Since(t0).Seconds()}, nil
}

func runWorker(bin string, wc workerCfg, timeout time.Duration, race bool) (*workerOut, string, error) {
	b, _ := json.Marshal(wc)
	cmd := exec.Command(bin, "-test.run", "^TestVerifWorker$", "-test.cpu", "1", "-test.timeout", "0", "-test.count", "1")
	cmd.Dir = repoDir
	cmd.Env = append(os.Environ(), "VERIF_WORKER="+string(b))
	if race {
		cmd.Env = append(cmd.Env, "GORACE=halt_on_error=1 exitcode=66", "GOMAXPROCS=16")
		cmd.Args[4] = "16"
	}
	var outBuf strings.Builder
	cmd.Stdout = &outBuf
	cmd.Stderr = &outBuf
	if err := cmd.Start(); err != nil {
		return nil, "", err
	}
	done := make(chan error, 1)
	go func() { done <- cmd.Wait() }()
	var werr error
	select {
	case werr = <-done:
	case <-time.After(timeout):
		_ = cmd.Process.Kill()
		<-done
		return nil, outBuf.String(), fmt.Errorf("worker watchdog: no result within %v", timeout)
	}
	rb, rerr := os.ReadFile(wc.Out)
	if rerr != nil {
		return nil, outBuf.String(), fmt.Errorf("worker produced no result (exit: %v)", werr)
	}
	var wo workerOut
	if err := json.Unmarshal(rb, &wo); err != nil {
		return nil, outBuf.String(), err
	}
	if werr != nil {
		return &wo, outBuf.String(), fmt.Errorf("worker exit: %v", werr)
	}
	return &wo, outBuf.String(), nil
}

type knownFindings struct {
	Known []struct {
		Property string `json:"property"`
		Class    string `json:"class"`
		Match    string `json:"match"` // substring of the violation message identifying the specific failing input
		What     string `json:"what"`
	} `json:"known"`
	Fixed []string `json:"fixed"`
}

func loadKnown() knownFindings {
	var k knownFindings
	b, err := os.ReadFile(filepath.Join(verifDir, "known_findings.json"))
	if err == nil {
		_ = json.Unmarshal(b, &k)
	}
	return k
}

type aggregate struct {
	evals, nontrivial int
	sigs              map[string]struct{}
	steps, simNs      int64
	stats             map[string]int64
	outcomes          map[string]int
	noProgress        int
	detChecked        int
	detMismatch       []string
	violations        []string
	violClasses       []string
	machinery         []string
	samples           []any
	maxRunnable       int
	knownRuns         int
	perConfig         map[string]map[string]any
}

func main() {
	registerAll()
	if len(os.Args) < 2 {
		die(2, "usage: tlsim check <property> quick|thorough | replay <file> | selftest determinism <property>")
	}
	switch os.Args[1] {
	case "check":
		if len(os.Args) < 4 {
			die(2, "usage: tlsim check <property> quick|thorough")
		}
		os.Exit(check(os.Args[2], os.Args[3]))
	case "replay":
		if len(os.Args) < 3 {
			die(2, "usage: tlsim replay <file>")
		}
		os.Exit(replay(os.Args[2], true))
	case "selftest":
		if len(os.Args) < 4 {
			die(2, "usage: tlsim selftest determinism <property>")
		}
		os.Exit(selftestDeterminism(os.Args[3]))
	default:
		die(2, "unknown command %q", os.Args[1])
	}
}

func seedFromEnv() uint64 {
	if v := os.Getenv("VERIF_SEED"); v != "" {
		if n, err := strconv.ParseUint(v, 10, 64); err == nil {
			return n
		}
		if n, err := strconv.ParseInt(v, 10, 64); err == nil {
			return uint64(n)
		}
	}
	return 1
}

func mkScratch() string {
	base := os.Getenv("VERIF_SCRATCH")
	if base == "" {
		base = os.TempDir()
	}
	d, err := os.MkdirTemp(base, "tlsim-")
	if err != nil {
		die(2, "scratch: %v", err)
	}
	return d
}

func shardsFromEnv() int {
	if v := os.Getenv("VERIF_SHARDS"); v != "" {
		if n, err := strconv.Atoi(v); err == nil && n > 0 {
			return n
		}
	}
	return 16
}

func check(id, tier string) int {
	p := properties[id]
	if p == nil {
		die(2, "unknown property %s", id)
	}
	if t := os.Getenv("VERIF_TIER"); t == "quick" || t == "thorough" {
		tier = t
	}
	if tier != "quick" && tier != "thorough" {
		die(2, "tier must be quick or thorough")
	}
	seed := seedFromEnv()
	t0 := time.Now()
	scratch := mkScratch()
	if os.Getenv("VERIF_KEEP_SCRATCH") != "" {
		fmt.Println("tlsim: scratch kept at", scratch)
	} else {
		defer os.RemoveAll(scratch)
	}
	fmt.Printf("tlsim: property=%s tier=%s seed=%d repo=%s\n", id, tier, seed, repoHead())

	// build every worker this property needs (in parallel)
	built := map[string]*builtWorker{}
	var bmu sync.Mutex
	var wg sync.WaitGroup
	var berr error
	for _, c := range p.configs {
		if _, ok := built[c.build]; ok {
			continue
		}
		built[c.build] = nil
		wg.Add(1)
		go func(name string) {
			defer wg.Done()
			bw, err := buildWorker(builds[name], scratch)
			bmu.Lock()
			defer bmu.Unlock()
			if err != nil && berr == nil {
				berr = fmt.Errorf("build %s: %v", name, err)
			}
			built[name] = bw
		}(c.build)
	}
	wg.Wait()
	if berr != nil {
		fmt.Fprintf(os.Stderr, "tlsim: MACHINERY %v\n", berr)
		return 2
	}
	shards := shardsFromEnv()
	knownAll := loadKnown()
	var knownPats []knownPattern
	for _, k := range knownAll.Known {
		if k.Property == id {
			knownPats = append(knownPats, knownPattern{Class: k.Class, Match: k.Match})
		}
	}
	agg := &aggregate{sigs: map[string]struct{}{}, stats: map[string]int64{}, outcomes: map[string]int{}, perConfig: map[string]map[string]any{}}
	head := repoHead()
	replayDir := filepath.Join(verifDir, "replays")
	machinery := false
	for ci, c := range p.configs {
		tc := c.quick
		if tier == "thorough" {
			tc = c.thorough
		}
		if tc.runs == 0 && tc.wallSec == 0 {
			continue
		}
		if oc := os.Getenv("VERIF_ONLY_CONFIG"); oc != "" && oc != c.name {
			continue
		}
		if v := os.Getenv("VERIF_WALL_SCALE"); v != "" {
			if f, err := strconv.ParseFloat(v, 64); err == nil {
				tc.wallSec *= f
				tc.runs = int(float64(tc.runs) * f)
			}
		}
		if v := os.Getenv("VERIF_DET_PCT"); v != "" {
			tc.detPct, _ = strconv.Atoi(v)
		}
		bw := built[c.build]
		race := builds[c.build].race
		cfgAgg := map[string]any{}
		var mu sync.Mutex
		var wg sync.WaitGroup
		cEvals := 0
		cStart := time.Now()
		for sh := 0; sh < shards; sh++ {
			wg.Add(1)
			go func(sh int) {
				defer wg.Done()
				wc := workerCfg{Property: id, Engine: p.engine, Config: c.name, Seed: seed*1000003 + uint64(ci), Shard: sh, Shards: shards,
					Runs: tc.runs, WallSec: tc.wallSec, Out: filepath.Join(scratch, fmt.Sprintf("out-%s-%d.json", c.name, sh)),
					ReplayDir: replayDir, Params: c.params, DetPct: tc.detPct, RepoHead: head, Known: knownPats}
				timeout := time.Duration(tc.wallSec*float64(time.Second))*3 + 10*time.Minute
				if c.params["enumerate"] == true {
					timeout += 40 * time.Minute // one evaluation enumerates a whole single-fault space and cannot be cut short
				}
				wo, output, err := runWorker(bw.bin, wc, timeout, race)
				mu.Lock()
				defer mu.Unlock()
				if err != nil {
					if race && strings.Contains(output, "DATA RACE") {
						path := filepath.Join(replayDir, fmt.Sprintf("%s-race-%d-%d.txt", id, seed, sh))
						_ = os.MkdirAll(replayDir, 0o755)
						_ = os.WriteFile(path, []byte(fmt.Sprintf("config=%s seed=%d shard=%d/%d (scenario stream replays exactly; thread interleaving only statistically)\n\n%s", c.name, wc.Seed, sh, shards, output)), 0o644)
						agg.violations = append(agg.violations, path)
						agg.violClasses = append(agg.violClasses, id+"/data-race")
						return
					}
					agg.machinery = append(agg.machinery, fmt.Sprintf("config %s shard %d: %v\n%s", c.name, sh, err, tail(output, 60)))
					return
				}
				agg.evals += wo.Evaluations
				cEvals += wo.Evaluations
				for _, s := range wo.Sigs {
					agg.sigs[c.name+":"+s] = struct{}{}
				}
				agg.steps += wo.Steps
				agg.simNs += wo.SimTimeNs
				for k, v := range wo.Stats {
					agg.stats[k] += v
				}
				for k, v := range wo.Outcomes {
					agg.outcomes[c.name+"."+k] += v
				}
				agg.noProgress += wo.NoProgress
				agg.detChecked += wo.DetChecked
				agg.detMismatch = append(agg.detMismatch, wo.DetMismatch...)
				agg.violations = append(agg.violations, wo.Violations...)
				agg.knownRuns += wo.KnownHits
				agg.violClasses = append(agg.violClasses, wo.ViolClasses...)
				agg.machinery = append(agg.machinery, wo.Machinery...)
				if len(agg.samples) < 3 {
					agg.samples = append(agg.samples, wo.Samples...)
				}
				if wo.MaxRunnable > agg.maxRunnable {
					agg.maxRunnable = wo.MaxRunnable
				}
			}(sh)
		}
		wg.Wait()
		cfgAgg["evaluations"] = cEvals
		cfgAgg["wall_s"] = time.Since(cStart).Seconds()
		cfgAgg["build_s"] = bw.seconds
		if len(bw.notes) > 0 {
			cfgAgg["build_notes"] = bw.notes
		}
		if bw.instr != nil {
			cfgAgg["instrumented_packages"] = bw.instr.Packages
			cfgAgg["rewrites"] = bw.instr.Stats
		}
		agg.perConfig[c.name] = cfgAgg
		if len(agg.violations) > agg.knownRuns { // some violation is not a listed finding: no need to run further configs
			break
		}
	}
	if len(agg.machinery) > 0 || len(agg.detMismatch) > 0 {
		machinery = true
	}

	// verify violations by fresh-process replay; classify against known findings
	known := knownAll
	exit := 0
	var lines []string
	sort.Strings(agg.violations)
	reported := 0
	knownHits := 0
	knownPrinted := map[string]bool{}
	for _, path := range agg.violations {
		if strings.HasSuffix(path, ".txt") { // data race report
			lines = append(lines, fmt.Sprintf("VIOLATION property=%s replay=%s", id, path))
			reported++
			continue
		}
		rb, _ := os.ReadFile(path)
		var rf struct {
			Config    string `json:"config"`
			Violation struct {
				Class string `json:"class"`
				Msg   string `json:"message"`
			} `json:"violation"`
		}
		_ = json.Unmarshal(rb, &rf)
		bname := ""
		for _, c := range p.configs {
			if c.name == rf.Config {
				bname = c.build
			}
		}
		if builds[bname] != nil && !builds[bname].race {
			wc := workerCfg{Property: id, Replay: path, Out: filepath.Join(scratch, "replay-out.json")}
			wo, output, err := runWorker(built[bname].bin, wc, 10*time.Minute, false)
			if err != nil || wo.ReplayResult == nil || !wo.ReplayResult.Reproduced {
				agg.machinery = append(agg.machinery, fmt.Sprintf("violation %s (%s) did not reproduce in a fresh process: %v %s", path, rf.Violation.Class, err, tail(output, 20)))
				machinery = true
				continue
			}
			if !wo.ReplayResult.SameHash {
				agg.machinery = append(agg.machinery, fmt.Sprintf("violation %s reproduced with the same class but a different event log hash", path))
				machinery = true
				continue
			}
		}
		isKnown := false
		for _, k := range known.Known {
			if k.Property == id && k.Class == rf.Violation.Class && (k.Match == "" || strings.Contains(rf.Violation.Msg, k.Match)) {
				if !knownPrinted[k.What] {
					lines = append(lines, fmt.Sprintf("KNOWN-FINDING: property=%s %s", id, k.What))
					knownPrinted[k.What] = true
				}
				isKnown = true
				knownHits++
				_ = os.Remove(path)
				break
			}
		}
		if !isKnown {
			lines = append(lines, fmt.Sprintf("VIOLATION property=%s replay=%s", id, path))
			fmt.Printf("tlsim: violation class=%s: %s\n", rf.Violation.Class, firstLines(rf.Violation.Msg, 12))
			reported++
		}
	}
	if reported > 0 {
		exit = 1
	}
	wall := time.Since(t0).Seconds()
	writeEvidence(p, tier, seed, agg, wall, reported, knownHits, shards)
	for _, l := range lines {
		fmt.Println(l)
	}
	if machinery {
		for _, m := range agg.machinery {
			fmt.Fprintf(os.Stderr, "tlsim: MACHINERY %s\n", m)
		}
		for _, m := range agg.detMismatch {
			fmt.Fprintf(os.Stderr, "tlsim: MACHINERY nondeterministic replay: %s\n", m)
		}
		if exit == 0 {
			exit = 2
		}
	}
	fmt.Printf("tlsim: property=%s tier=%s evaluations=%d distinct_nontrivial=%d steps=%d violations=%d known=%d wall=%.1fs exit=%d\n",
		id, tier, agg.evals, len(agg.sigs), agg.steps, reported, knownHits, wall, exit)
	return exit
}

func tail(s string, n int) string {
	ls := strings.Split(strings.TrimRight(s, "\n"), "\n")
	if len(ls) > n {
		ls = ls[len(ls)-n:]
	}
	return strings.Join(ls, "\n")
}

func firstLines(s string, n int) string {
	ls := strings.Split(s, "\n")
	if len(ls) > n {
		ls = append(ls[:n], "…")
	}
	return strings.Join(ls, "\n")
}

func writeEvidence(p *property, tier string, seed uint64, agg *aggregate, wall float64, violations, known, shards int) {
	faults := map[string]int64{}
	probes := map[string]int64{}
	sched := map[string]int64{}
	other := map[string]int64{}
	for k, v := range agg.stats {
		switch {
		case strings.HasPrefix(k, "fault."):
			faults[strings.TrimPrefix(k, "fault.")] = v
		case strings.HasPrefix(k, "probe."), strings.HasPrefix(k, "buggify."):
			probes[k] = v
		case strings.HasPrefix(k, "sched."):
			sched[k] = v
		default:
			other[k] = v
		}
	}
	cov := map[string]any{
		"evaluations":               agg.evals,
		"distinct_nontrivial":       len(agg.sigs),
		"rule":                      p.rule,
		"samples":                   agg.samples,
		"scheduling_steps":          agg.steps,
		"simulated_time_s":          float64(agg.simNs) / 1e9,
		"runs_per_hour":             float64(agg.evals) / wall * 3600,
		"seeds_per_hour":            float64(agg.evals) / wall * 3600,
		"faults_fired":              faults,
		"probes":                    probes,
		"scheduler":                 sched,
		"counters":                  other,
		"outcomes":                  agg.outcomes,
		"runs_without_progress":     agg.noProgress,
		"determinism_rechecked":     agg.detChecked,
		"determinism_mismatches":    len(agg.detMismatch),
		"max_simultaneously_runnable": agg.maxRunnable,
		"configs":                   agg.perConfig,
		"components":                p.components,
		"worker_processes":          shards,
		"repo_head":                 repoHead(), // commit (and "+dirty") of the tree the workers were built from
		"known_findings_hit":        known,
		"runs_ending_in_a_known_finding": agg.knownRuns,
		"exhaustive":                false,
	}
	if len(agg.samples) == 0 {
		cov["samples"] = []any{"no run completed"}
	}
	ev := map[string]any{
		"property_id": p.id, "tier": tier, "seed": int64(seed), "level": p.level,
		"coverage": cov, "assumptions": p.assumptions, "wall_s": wall, "violations": violations,
	}
	b, _ := json.MarshalIndent(ev, "", " ")
	evDir := "evidence"
	if repoDir != "/repo" {
		evDir = "evidence-triage"
		fmt.Fprintf(os.Stderr, "tlsim: TRIAGE run against %s: evidence goes to %s/, not evidence/\n", repoDir, evDir)
	}
	_ = os.MkdirAll(filepath.Join(verifDir, evDir), 0o755)
	if err := os.WriteFile(filepath.Join(verifDir, evDir, p.id+".json"), b, 0o644); err != nil {
		die(2, "write evidence: %v", err)
	}
}

func replay(path string, verbose bool) int {
	rb, err := os.ReadFile(path)
	if err != nil {
		die(2, "%v", err)
	}
	var rf struct {
		Property string `json:"property"`
		Config   string `json:"config"`
	}
	if err := json.Unmarshal(rb, &rf); err != nil {
		die(2, "%v", err)
	}
	p := properties[rf.Property]
	if p == nil {
		die(2, "unknown property %q in replay file", rf.Property)
	}
	var c *config
	for i := range p.configs {
		if p.configs[i].name == rf.Config {
			c = &p.configs[i]
		}
	}
	if c == nil {
		die(2, "unknown config %q", rf.Config)
	}
	scratch := mkScratch()
	defer os.RemoveAll(scratch)
	bw, err := buildWorker(builds[c.build], scratch)
	if err != nil {
		fmt.Fprintf(os.Stderr, "tlsim: MACHINERY %v\n", err)
		return 2
	}
	if verbose {
		os.Setenv("VERIF_REPLAY_VERBOSE", "1")
	}
	abs, _ := filepath.Abs(path)
	wo, output, err := runWorker(bw.bin, workerCfg{Property: rf.Property, Replay: abs, Out: filepath.Join(scratch, "replay.json")}, 10*time.Minute, false)
	fmt.Print(output)
	if err != nil || wo.ReplayResult == nil {
		fmt.Fprintf(os.Stderr, "tlsim: MACHINERY replay failed: %v\n", err)
		return 2
	}
	rr := wo.ReplayResult
	fmt.Printf("tlsim: replay reproduced=%v same_log_hash=%v class=%s\n%s\n", rr.Reproduced, rr.SameHash, rr.Class, rr.Msg)
	if rr.Reproduced {
		fmt.Printf("VIOLATION property=%s replay=%s\n", rf.Property, abs)
		return 1
	}
	return 0
}

// selftestDeterminism: many seeds, each executed in separate OS processes at GOMAXPROCS 1, 4, 16;
// the per-shard digests of all event-log hashes must agree.
func selftestDeterminism(id string) int {
	p := properties[id]
	if p == nil {
		die(2, "unknown property %s", id)
	}
	scratch := mkScratch()
	defer os.RemoveAll(scratch)
	exit := 0
	for _, c := range p.configs {
		if builds[c.build].race {
			continue
		}
		bw, err := buildWorker(builds[c.build], scratch)
		if err != nil {
			fmt.Fprintf(os.Stderr, "tlsim: MACHINERY %v\n", err)
			return 2
		}
		type res struct {
			procs string
			hash  string
		}
		var results []res
		var mu sync.Mutex
		var wg sync.WaitGroup
		nproc := 6
		if n, err := strconv.Atoi(os.Getenv("VERIF_DET_PROCS")); err == nil && n >= 2 {
			nproc = n // e.g. 30: a rare divergence (p = 1/8) is missed by a two-run diff four times in five
		}
		var plist []string
		for i := 0; i < nproc; i++ {
			plist = append(plist, []string{"1", "4", "16"}[i%3])
		}
		slots := make(chan struct{}, 16)
		for i, procs := range plist {
			wg.Add(1)
			go func(i int, procs string) {
				defer wg.Done()
				slots <- struct{}{}
				defer func() { <-slots }()
				runs := 60
				if c.params["enumerate"] == true {
					runs = 4 // one enumerating evaluation is thousands of re-runs
				}
				b, _ := json.Marshal(workerCfg{Property: id, Engine: p.engine, Config: c.name, Seed: 777, Shard: 0, Shards: 1, Runs: runs,
					Out: filepath.Join(scratch, fmt.Sprintf("det-%s-%d.json", c.name, i)), Params: withParam(c.params, "det_digest", true), ReplayDir: scratch})
				cmd := exec.Command(bw.bin, "-test.run", "^TestVerifWorker$", "-test.cpu", procs, "-test.count", "1", "-test.timeout", "0")
				cmd.Dir = repoDir
				cmd.Env = append(os.Environ(), "VERIF_WORKER="+string(b), "VERIF_DET_DIGEST=1", "GOMAXPROCS="+procs)
				out, err := cmd.CombinedOutput()
				h := ""
				for _, l := range strings.Split(string(out), "\n") {
					if strings.HasPrefix(l, "DETDIGEST ") {
						h = strings.TrimPrefix(l, "DETDIGEST ")
					}
				}
				if err != nil {
					h = "error: " + err.Error() + tail(string(out), 10)
				}
				mu.Lock()
				results = append(results, res{procs, h})
				mu.Unlock()
			}(i, procs)
		}
		wg.Wait()
		ok := true
		for _, r := range results {
			if r.hash != results[0].hash || r.hash == "" || strings.HasPrefix(r.hash, "error") {
				ok = false
			}
		}
		fmt.Printf("selftest determinism %s/%s: %d processes ok=%v\n", id, c.name, len(results), ok)
		if !ok {
			for _, r := range results {
				fmt.Printf("  GOMAXPROCS=%s digest=%s\n", r.procs, r.hash)
			}
			exit = 2
		}
	}
	return exit
}

func withParam(m map[string]any, k string, v any) map[string]any {
	o := map[string]any{}
	for a, b := range m {
		o[a] = b
	}
	o[k] = v
	return o
}
