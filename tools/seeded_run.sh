#!/bin/sh
# usage: seeded_run.sh <patch.diff> <property-id> [quick|thorough]   -- applies the patch to /repo, runs the check, ALWAYS reverts
set -u
P="$1"; ID="$2"; TIER="${3:-quick}"
git -C /repo diff --quiet || { echo "seeded_run: /repo is dirty, refusing" >&2; exit 3; }
git -C /repo apply "$P" || { echo "seeded_run: patch does not apply" >&2; exit 3; }
trap 'git -C /repo checkout -- . ; git -C /repo clean -fdq -- . 2>/dev/null' EXIT INT TERM
O=$(mktemp)
# the evidence file of a run against a deliberately broken tree is not evidence: keep the committed one
EV=/verif/evidence/$ID.json; BK=$(mktemp); [ -f "$EV" ] && cp "$EV" "$BK"
/verif/check "$ID" "$TIER" > "$O" 2>&1
[ -s "$BK" ] && cp "$BK" "$EV"; rm -f "$BK"
grep -E "^tlsim: violation" "$O" | cut -c1-420 | head -4
grep -E "^VIOLATION|^KNOWN" "$O" | head -2
grep -E "^tlsim: (property=.*exit=|MACHINERY)" "$O" | cut -c1-300 | tail -2
rm -f "$O"
