#!/bin/sh
# usage: seeded_run.sh <patch.diff> <property-id> [quick|thorough]   -- applies the patch to /repo, runs the check, ALWAYS reverts
set -u
P="$1"; ID="$2"; TIER="${3:-quick}"
git -C /repo diff --quiet || { echo "seeded_run: /repo is dirty, refusing" >&2; exit 3; }
git -C /repo apply "$P" || { echo "seeded_run: patch does not apply" >&2; exit 3; }
trap 'git -C /repo checkout -- . ; git -C /repo clean -fdq -- . 2>/dev/null' EXIT INT TERM
/verif/check "$ID" "$TIER" 2>&1 | grep -E "^tlsim: (violation|property=.*exit=|MACHINERY)|^VIOLATION|^KNOWN" | cut -c1-420 | head -8
