#!/bin/sh
# usage: seeded_save.sh <ID> <n> <needs> <ran> <result>
d=/verif/seeded/$1-$(($2+${SEEDED_OFF:-0})); mkdir -p $d
cp ${SEEDED_WT:-/tmp/wt-$1}/SEEDED/$2/patch.diff ${SEEDED_WT:-/tmp/wt-$1}/SEEDED/$2/*_test.go ${SEEDED_WT:-/tmp/wt-$1}/SEEDED/$2/DEMO.md ${SEEDED_WT:-/tmp/wt-$1}/SEEDED/$2/NOTES.md $d/ 2>/dev/null
# demo copies must not be picked up as Go packages of anything
for f in $d/*_test.go; do [ -f "$f" ] && mv "$f" "$f.txt"; done
python3 - "$d" "$1" "$3" "$4" "$5" <<'PY'
import json,sys
d,prop,needs,ran,result=sys.argv[1:6]
json.dump({"property":prop,"breaks":prop,"needs_to_manifest":needs,"verified":"scratch worktree: patch applies, go build ./... ok, existing package tests pass with the patch, demonstration fails with the patch and passes without (tools/seeded_verify.sh)","what_was_run":ran,"result":result,"origin":"independent sub-agent given only the property text; demonstration kept as zz_seeded_demo_test.go.txt (rename to _test.go and place as DEMO.md says)"},open(d+"/meta.json","w"),indent=1)
PY
