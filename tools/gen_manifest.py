#!/usr/bin/env python3
"""Regenerates /verif/MANIFEST.json. The list CLAIMED says which checks exist; everything else in
properties.jsonl is listed under not_applicable with its reason."""
import json, os
V = '/verif'
R = ("pure function of its input (schema text, value, byte string or operation list): no schedule, clock, I/O fault, "
     "peer or crash point can change its truth, so deterministic simulation would only be input generation under another name (DESIGN.md §5)")
special = {
 "C08": "termination/allocation bound of a sequential function of the input bytes; no schedule, clock, fault or peer involved (DESIGN.md §5)",
 "C09": "'history' is a list of inputs to one sequential object with nothing concurrent or faulty between them; pure (DESIGN.md §5)",
 "C14": "compiler totality over schema text; pure function of the input. Its one disk-facing clause is exercised incidentally by C16's rejected generations but C14 is not claimed (DESIGN.md §5)",
 "C18": "seeded PRNG in, value out: pure (DESIGN.md §5)",
 "C26": "TLO bytes are a pure function of schema and the timestamp argument (DESIGN.md §5)",
 "C31": "pure input/output agreement of C++ and Go codecs; needs g++ harnesses no simulator seam touches (DESIGN.md §5)",
 "C32": "pure input/output agreement of PHP and Go codecs; needs php harnesses no simulator seam touches (DESIGN.md §5)",
 "C41": "sequential in-memory containers with no concurrency, time or I/O; comparing them with reference containers is model-based testing of a pure data structure, not simulation (they run as real code underneath engine udp) (DESIGN.md §5)",
}
CHECKS = json.load(open(os.path.join(V, 'tools/checks.json')))
claimed = {c['property_id'] for c in CHECKS}
PLANNED = {"C15","C16","C35","C36","C37","C38","C39","C40","C42"}
na = []
for l in open(os.path.join(V, 'properties.jsonl')):
    p = json.loads(l)
    if p['id'] in claimed:
        continue
    if p['id'] in PLANNED:
        na.append({"property_id": p['id'], "reason": "simulation target (DESIGN.md §3); its check is not built yet, so it is not claimed"})
    else:
        na.append({"property_id": p['id'], "reason": "'" + p['title'] + "' (quantified over " + ", ".join(p['quantifier']['over']) + "): " + special.get(p['id'], R)})
checks = []
for c in CHECKS:
    i = c['property_id']
    checks.append({
        "property_id": i,
        "quick_cmd": f"./check {i} quick",
        "thorough_cmd": f"./check {i} thorough",
        "evidence_file": f"/verif/evidence/{i}.json",
        "replay_cmd_template": "./check replay {path}",
        "engine": c['engine'],
        "level_claimed": {"category": c['category'], "text": c['text'], "design_ref": c['design_ref']},
        "level_note": c['level_note'],
        "technique": c['technique'],
    })
engines = {}
for c in CHECKS:
    engines.setdefault(c['engine'], []).append(c['property_id'])
ENG = {
 "sem": ("/verif/harness/sem", "seeded token scheduler over the source-rewritten semaphore package inside a testing/synctest bubble; porcupine history check"),
 "udp": ("/verif/harness/udp", "single-threaded seeded discrete-event simulation of up to 6 udp.Transport nodes over a faulty datagram bag, reusing the repository's own step functions"),
 "rpc": ("/verif/harness/rpc", "seeded token scheduler over the source-rewritten pkg/rpc + semaphore, simulated network (simnet), fake clock, seeded crypto/rand"),
 "gen": ("/verif/harness/gen", "in-process code generator on a simulated disk (simfs) with seeded map order, writer-pool schedule and disk faults / crash points"),
}
m = {
 "version": 1,
 "setup_cmd": "cd /verif/sim && GOFLAGS=-mod=mod GOPROXY=off GOSUMDB=off GOTOOLCHAIN=local /opt/veriftools/go1.26.8/bin/go build -o /verif/bin/tlsim ./cmd/tlsim",
 "hooks": {
  "guard": "none: no source hook is committed to /repo; every seam is injected at build time (go test -overlay: simulator runtime + harness files added, instrumented copies of the target packages produced by /verif/sim/instrument from the current working tree)",
  "enable": "./check <id> quick  (instrument -> overlay.json -> /opt/veriftools/go1.26.8/bin/go test -c -overlay=... -modfile=<scratch copy of go.mod>)",
  "baseline_off_cmd": "cd /repo && GOFLAGS=-mod=mod GOPROXY=off go test -vet=off -count=1 ./...",
  "source_commits": [],
  "add_only": True,
 },
 "engines": [{"name": k, "path": ENG[k][0], "serves_properties": sorted(v), "kind_free_text": ENG[k][1]} for k, v in sorted(engines.items())],
 "checks": checks,
 "notes": "Technique: deterministic simulation with fault injection. Exit 0 held / 1 VIOLATION / 2 machinery trouble. Genuine defects repaired in /repo are listed in /verif/known_findings.json (fixed entries suppress nothing). See DESIGN.md.",
 "not_applicable": na,
}
json.dump(m, open(os.path.join(V, 'MANIFEST.json'), 'w'), indent=1)
print("claimed", sorted(claimed), "n/a", len(na))
