#!/bin/sh
# runs every thorough check once, sequentially (used with `vp run`); prints one summary line per property
for id in ${*:-C42 C37 C36 C35 C38 C39 C40 C15 C16}; do
  echo "=== $id thorough seed=${VERIF_SEED:-1} $(date)"
  ./check $id thorough 2>&1 | grep -E "^tlsim: (violation|property=.*exit=|MACHINERY)|^VIOLATION|^KNOWN" | cut -c1-400
done
echo "=== done $(date)"
