#!/usr/bin/env python3
# prints a markdown table of what the evidence files say (usage: evidence_table.py [dir])
import json, sys, glob, os
d = sys.argv[1] if len(sys.argv) > 1 else os.path.join(os.path.dirname(__file__), '..', 'evidence')
print('| id | tier | evaluations | distinct non-trivial | scheduling steps | simulated time | wall | runs/hour | faults fired (top) |')
print('|---|---|---|---|---|---|---|---|---|')
for f in sorted(glob.glob(os.path.join(d, 'C*.json'))):
    e = json.load(open(f)); c = e['coverage']
    ff = sorted(c.get('faults_fired', {}).items(), key=lambda kv: -kv[1])[:6]
    st = c.get('simulated_time_s', 0)
    print('| %s | %s | %d | %d | %d | %s | %.0f s | %.0f | %s |' % (e['property_id'], e['tier'], c['evaluations'], c['distinct_nontrivial'],
          c.get('scheduling_steps', 0), ('%.1f h' % (st/3600)) if st else '-', e['wall_s'], c.get('runs_per_hour', 0),
          ', '.join('%s %d' % kv for kv in ff)))
