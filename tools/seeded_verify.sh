#!/bin/sh
# usage: seeded_verify.sh <worktree> <n> <package-dir-rel> <demo-run-regex>
# Confirms in the scratch worktree: patch applies, repo builds, existing package tests pass with the patch,
# the demonstration FAILS with the patch and PASSES without it. Leaves the worktree clean.
set -u
WT="$1"; N="$2"; PKG="$3"; RX="${4:-TestSeeded}"
export GOFLAGS=-mod=mod GOPROXY=off
cd "$WT" || exit 3
git checkout -q -- . ; find . -name 'zz_seeded_demo*_test.go' -not -path './SEEDED/*' -delete
git apply --check "SEEDED/$N/patch.diff" || { echo "VERIFY: patch does not apply"; exit 1; }
git apply "SEEDED/$N/patch.diff"
go build ./... >/dev/null 2>&1 && echo "VERIFY: build with patch ok" || echo "VERIFY: BUILD FAILS with patch"
go test -count=1 "./$PKG/..." 2>&1 | tail -3 | sed 's/^/VERIFY existing tests with patch: /'
for f in SEEDED/$N/zz_seeded_demo*_test.go; do cp "$f" "$PKG/"; done
go test -count=1 -run "$RX" "./$PKG/" > /tmp/seeded_demo_with.txt 2>&1; echo "VERIFY: demo WITH patch exit=$? ($(grep -c -- '--- FAIL' /tmp/seeded_demo_with.txt) FAIL lines)"
git checkout -q -- .
go test -count=1 -run "$RX" "./$PKG/" > /tmp/seeded_demo_without.txt 2>&1; echo "VERIFY: demo WITHOUT patch exit=$? ($(grep -c -- '--- FAIL' /tmp/seeded_demo_without.txt) FAIL lines)"
find . -name 'zz_seeded_demo*_test.go' -not -path './SEEDED/*' -delete
git status --short | grep -v SEEDED | head -3
