#!/bin/sh
# Sensitivity regression: every seeded change under /verif/seeded must be reported by the check of its property.
# usage: tools/seeded_all.sh [scale [glob]]     (applies each patch to /repo in turn, always reverts; glob selects
# directories under seeded/, e.g. 'C*-1[12]' for the seventh wave)
SCALE="${1:-0.6}"
GLOB="${2:-}"
rc=0
if [ -n "$GLOB" ]; then LIST=$(ls -d /verif/seeded/$GLOB); else LIST=$(ls -d /verif/seeded/C*-* /verif/seeded/H-*); fi
for d in $LIST; do
  id=$(basename "$d" | sed 's/^H-//' | cut -d- -f1)
  out=$(VERIF_WALL_SCALE=$SCALE /verif/tools/seeded_run.sh "$d/patch.diff" "$id" 2>&1)
  if echo "$out" | grep -q "^VIOLATION property=$id\|^tlsim: violation class="; then
    cls=$(echo "$out" | grep -m1 "violation class=" | sed 's/.*violation class=\([^:]*\):.*/\1/')
    echo "CAUGHT  $(basename $d)  $cls"
  else
    echo "MISSED  $(basename $d)  $(echo "$out" | tail -1 | cut -c1-160)"; rc=1
  fi
  rm -f /verif/replays/*.json /verif/replays/*.txt
done
git -C /repo status --short | grep -v '^??' | head -3
exit $rc
