#!/bin/sh
# usage: seeded_triage.sh <worktree> <n> <property-id> [quick|thorough]
# Triage only: applies SEEDED/<n>/patch.diff inside the scratch worktree and points tlsim at it (VERIF_REPO), so that
# a long run building from /repo is not disturbed. Results that are recorded come from seeded_run.sh against /repo.
set -u
WT="$1"; N="$2"; ID="$3"; TIER="${4:-quick}"
cd "$WT" || exit 3
git checkout -q -- . ; find . -name 'zz_seeded_demo*_test.go' -not -path './SEEDED/*' -delete
git apply "SEEDED/$N/patch.diff" || { echo "triage: patch does not apply" >&2; exit 3; }
trap 'git -C "$WT" checkout -q -- .' EXIT INT TERM
O=$(mktemp)
VERIF_REPO="$WT" /verif/check "$ID" "$TIER" > "$O" 2>&1
grep -E "^tlsim: violation" "$O" | cut -c1-420 | head -4
grep -E "^VIOLATION|^KNOWN" "$O" | head -2
grep -E "^tlsim: (property=.*exit=|MACHINERY)" "$O" | cut -c1-300 | tail -2
rm -f "$O"
