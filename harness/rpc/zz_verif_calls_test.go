package rpc

// Engine `rpc`, properties C38 / C39 / C40 (DESIGN.md §3.3): real rpc.Client(s) and rpc.Server(s)
// (pkg/rpc and semaphore source-rewritten) over the simulated network, fake clock, seeded
// crypto/rand, under the token scheduler. Handlers are simulated and keyed on a unique token that
// every call carries in its body.

import (
	"github.com/VKCOM/tl/pkg/rpc/internal/gen/tlnet"
	"github.com/VKCOM/tl/pkg/rpc/internal/gen/tlgo"
	"github.com/VKCOM/tl/pkg/rpc/internal/gen/tlengine"
	"runtime"
	"sync/atomic"
	"bytes"
	"context"
	"encoding/binary"
	"encoding/hex"
	"errors"
	"fmt"
	"math/rand/v2"
	"os"
	"sort"
	"strings"
	"sync"
	"testing"
	"testing/cryptotest"
	"testing/synctest"
	"time"

	"github.com/VKCOM/tl/internal/zzverif/vrt"
	"github.com/VKCOM/tl/pkg/rpc/tlerrorcodes"
)

const (
	reqTag  = uint32(0x5EED0A01) // first word of every request body (must not collide with RPC wrapper tags)
	respTag = uint32(0x5EED0A02) // first word of every response body
)

type srvSpec struct {
	Network    string `json:"net"`  // tcp4 | unix
	Address    string `json:"addr"` // ip:port or path
	DisableSpecial bool `json:"disable_special,omitempty"` // ServerWithDisableSpecialHandlers
	MaxWorkers int    `json:"max_workers"`
	ReqBuf     int    `json:"req_buf"`       // ServerWithRequestBufSize (the API clamps it to >= 512)
	ReqMemLimit int   `json:"req_mem_limit"` // ServerWithRequestMemoryLimit (the API clamps it to >= 16 MiB)
	RBuf, WBuf int
	WithKey    bool `json:"with_key"`
	ForceEnc   bool `json:"force_enc"`
}

type cliSpec struct {
	WithKey    bool   `json:"with_key"`
	ForceEnc   bool   `json:"force_enc"`
	Protocol   uint32 `json:"protocol"`
	RBuf, WBuf int
	MaxReconnectMs int `json:"max_reconnect_ms"`
	DefaultTimeoutMs int `json:"default_timeout_ms,omitempty"` // the client's default timeout for requests that set none (a lower-priority timeout; a request asks for "infinite" with SetCustomTimeoutMs(0))
}

type extraSpec struct {
	Flags       uint32 `json:"flags"` // which optional fields are set (subset of the legal bits)
	Seed        uint64 `json:"seed"`
}

type callSpec struct {
	Client   int    `json:"c"`
	Server   int    `json:"s"`
	BodyLen  int    `json:"n"`
	Handler  string `json:"h"` // echo | rpcerr | goerr | panic | gate
	ErrCode  int32  `json:"code,omitempty"`
	GateUs   int64  `json:"gate_us,omitempty"`  // gate handler: opened by the simulator at this simulated time after the run starts (0: never, until the end-of-run release)
	DeadlineUs int64 `json:"dl_us,omitempty"`   // context deadline
	CustomTimeoutMs int32 `json:"cto,omitempty"`
	TagKind  int    `json:"tag_kind,omitempty"` // 0: the harness's own request tag; k: the k-th tag the server normally answers itself (only towards servers with DisableSpecialHandlers)
	After    int    `json:"after,omitempty"` // 1-based index of a call that this one follows in the same goroutine (sequential use: pooled requests/responses are reused back to back)
	CancelOnReply int `json:"cancel_on_reply,omitempty"` // the caller cancels this many canceller yields after the handler returned: the cancellation races with the arriving response
	CancelAt int    `json:"cancel,omitempty"`   // a canceller goroutine cancels the context after this many of its own yields
	FailFast bool   `json:"fail_fast,omitempty"`
	Callback bool   `json:"cb,omitempty"`
	TL2      bool   `json:"tl2,omitempty"`
	ActorID  int64  `json:"actor,omitempty"`
	Extra    extraSpec `json:"extra"`
	RespExtra extraSpec `json:"resp_extra"`
	StartUs  int64  `json:"start_us,omitempty"`
	Deaf     bool   `json:"deaf,omitempty"` // gate handler that does not watch its context: it overruns the request's deadline until its gate opens
	ExplicitInfinite bool `json:"explicit_infinite,omitempty"` // the request sets its timeout explicitly to 0 (infinite): documented to win over every lower-priority default
	PreYields int   `json:"pre_yields,omitempty"` // scheduling points the caller spends between waking up and calling Do: places the call at a seeded point of whatever else happens at that instant
	WrapErr  bool   `json:"wrap_err,omitempty"`  // rpcerr handler returns its *rpc.Error wrapped by an outer layer (fmt.Errorf %w), as generated dispatchers do
	CtxTrace bool   `json:"ctx_trace,omitempty"` // the caller's context carries a tracing context (a sub-request issued from inside a handler)
	CtxExec  bool   `json:"ctx_exec,omitempty"`  // ... and/or an execution context
	MutateReqExtra int `json:"mutate_req_extra,omitempty"` // handler changes hctx.RequestExtra before answering (as a proxy does): 1 clear all, 2 clear seeded bits, 3 set all bits
}

type faultSpec struct {
	Kind   string `json:"k"` // reset | stall | server_shutdown | server_close | client_close
	Target int    `json:"t"` // connection ordinal (reset/stall), server or client index
	AtUs   int64  `json:"at_us"`
	DurMs  int64  `json:"dur_ms,omitempty"`
}

type callsScenario struct {
	Kind    string      `json:"kind"`
	Focus   string      `json:"focus"`
	Servers []srvSpec   `json:"servers"`
	Clients []cliSpec   `json:"clients"`
	Calls   []callSpec  `json:"calls"`
	Faults  []faultSpec `json:"faults"`
	MaxSegment int `json:"max_segment"`
	MaxRead    int `json:"max_read"`
	JitterUs   int `json:"jitter_us"`
	Capacity   int `json:"capacity"`
	DialRefusePct int `json:"dial_refuse_pct"`
	Strategy   int `json:"strategy"`
	TimeAdvPct int `json:"time_adv_pct"`
	PoolPolicy int `json:"pool_policy"`
	MapPolicy  int `json:"map_policy"`
	CondRandom bool `json:"cond_random"`
	YieldUnlock bool `json:"yield_unlock,omitempty"` // unlocks are scheduling points as well
	HoldPermille int `json:"hold_permille,omitempty"` // ... and a goroutine that just unlocked is sometimes held back for a while
	IdleTeardown bool `json:"idle_teardown,omitempty"` // directed scenario: an idle connection is torn down while a caller looks it up
	MaxAdvanceExp int `json:"max_advance_exp"` // clock advances while goroutines are runnable are bounded by 1µs<<this
	Race       bool `json:"race"`            // run with runtime scheduling (the -race configuration)
	CryptoSeed uint64 `json:"crypto_seed"`
}

// legal optional-field bits of RpcInvokeReqExtra that the generator may set (no_result = bit 7 is refused by the client)
var reqExtraBits = []uint{0, 1, 2, 3, 4, 6, 8, 9, 14, 15, 16, 18, 19, 20, 21, 25, 26, 27, 29, 30}
var respExtraBits = []uint{0, 1, 2, 3, 4, 5, 6, 14, 27}

// forceDirected is a measuring aid (VERIF_FORCE_DIRECTED=idle): every faulty scenario with two calls takes the named
// directed branch, so that its hit rate can be measured apart from the mix. Never set by a registered check.
var forceDirected = os.Getenv("VERIF_FORCE_DIRECTED")

func callsGen(r *rand.Rand, params map[string]any) callsScenario {
	sc := callsScenario{Kind: "calls"}
	sc.Focus, _ = params["focus"].(string)
	sc.Race = params["race"] == true
	faulty := params["faults"] != "none"
	ns := 1 + r.IntN(2)
	for i := 0; i < ns; i++ {
		s := srvSpec{Network: "tcp4", Address: fmt.Sprintf("127.0.0.1:%d", 8080+i), MaxWorkers: 1 + r.IntN(4), ReqBuf: 512 << uint(r.IntN(4)), ReqMemLimit: maxPacketLen + 1,
			RBuf: 1 + r.IntN(2048), WBuf: 1 + r.IntN(2048), WithKey: true}
		switch r.IntN(4) {
		case 0:
			s.Network, s.Address = "unix", fmt.Sprintf("/sim/sock%d", i)
		case 1:
			s.Address = fmt.Sprintf("10.1.0.%d:%d", 9+i, 8080+i) // not loopback: encryption is required unless trusted
			s.WithKey = true
		}
		s.ForceEnc = s.WithKey && r.IntN(3) == 0
		s.DisableSpecial = r.IntN(4) == 0
		if sc.Focus == "C39" {
			// The public options clamp the limit to >= 16 MiB, so pressure comes from a large per-request
			// take: every request accounts max(size, RequestBufSize); 1..4 of them fill the limit.
			s.MaxWorkers = 1 + r.IntN(3)
			s.ReqMemLimit = maxPacketLen + 1 + r.IntN(4096)
			s.ReqBuf = s.ReqMemLimit/(1+r.IntN(4)) - r.IntN(2)
		}
		sc.Servers = append(sc.Servers, s)
	}
	nc := 1 + r.IntN(3)
	for i := 0; i < nc; i++ {
		sc.Clients = append(sc.Clients, cliSpec{WithKey: true, ForceEnc: r.IntN(4) == 0, Protocol: uint32(r.IntN(3)), RBuf: 1 + r.IntN(2048), WBuf: 1 + r.IntN(2048), MaxReconnectMs: 100 << uint(r.IntN(8))})
		if r.IntN(4) == 0 {
			sc.Clients[i].DefaultTimeoutMs = 500 + r.IntN(5000)
		}
	}
	ncalls := 1 + r.IntN(16)
	if sc.Focus == "C39" {
		ncalls = 2 + r.IntN(39)
	}
	handlers := []string{"echo", "echo", "echo", "rpcerr", "goerr", "panic", "gate", "gate", "longpoll", "longpoll"}
	for i := 0; i < ncalls; i++ {
		c := callSpec{Client: r.IntN(nc), Server: r.IntN(ns), BodyLen: r.IntN(600), Handler: handlers[r.IntN(len(handlers))], StartUs: int64(r.IntN(3)) * int64(r.IntN(5000))}
		if r.IntN(4) == 0 {
			c.BodyLen = r.IntN(4000)
		}
		if sc.Focus == "C39" {
			c.Handler = []string{"gate", "gate", "gate", "echo"}[r.IntN(4)]
			c.BodyLen = r.IntN(2000)
		}
		switch c.Handler {
		case "rpcerr":
			c.ErrCode = []int32{0, -1, -5000 - int32(r.IntN(1000)), 17, tlerrorcodes.Unknown}[r.IntN(5)]
		case "gate", "longpoll":
			if r.IntN(5) != 0 {
				c.GateUs = int64(1+r.IntN(20)) * int64(1+r.IntN(5000))
				c.Deaf = c.Handler == "gate" && r.IntN(4) == 0
			}
		}
		if faulty || sc.Focus == "C38" {
			switch r.IntN(6) {
			case 0:
				c.DeadlineUs = int64(1) << uint(r.IntN(24)) // 1µs .. 16s
				if r.IntN(3) == 0 {
					c.CustomTimeoutMs = int32(1 + r.IntN(3000)) // both: the shorter one rules
				}
			case 1:
				c.CustomTimeoutMs = int32(1 + r.IntN(3000))
			case 2:
				c.CancelAt = 1 + r.IntN(40)
			case 3:
				if c.Handler == "echo" || c.Handler == "gate" || c.Handler == "rpcerr" {
					c.CancelOnReply = 1 + r.IntN(150)
				}
			}
		}
		c.ExplicitInfinite = c.CustomTimeoutMs == 0 && r.IntN(5) == 0
		c.FailFast = faulty && r.IntN(6) == 0
		c.Callback = r.IntN(4) == 0
		c.TL2 = r.IntN(3) == 0
		if r.IntN(2) == 0 {
			c.ActorID = int64(r.IntN(5)) * int64(1+r.IntN(1<<30))
			if r.IntN(4) == 0 {
				c.ActorID = -c.ActorID // actor ids are plain 64-bit values
			}
		}
		if r.IntN(5) >= 2 { // 40% of the calls carry no request extra at all (the common case in practice: no wrapper is sent)
			for _, b := range reqExtraBits {
				if r.IntN(4) == 0 {
					c.Extra.Flags |= 1 << b
				}
			}
		}
		c.Extra.Seed = r.Uint64()
		for _, b := range respExtraBits {
			if r.IntN(3) == 0 {
				c.RespExtra.Flags |= 1 << b
			}
		}
		c.RespExtra.Seed = r.Uint64()
		if r.IntN(4) == 0 {
			c.MutateReqExtra = 1 + r.IntN(3)
		}
		if sc.Servers[c.Server].DisableSpecial && r.IntN(2) == 0 {
			c.TagKind = 1 + r.IntN(len(specialTags))
		}
		c.WrapErr = r.IntN(2) == 0
		c.CtxTrace = r.IntN(4) == 0
		c.CtxExec = r.IntN(4) == 0
		sc.Calls = append(sc.Calls, c)
	}
	for i := 1; i < len(sc.Calls); i++ {
		// a third of the calls follow an earlier Do in the same goroutine, as a sequential caller does
		if j := r.IntN(i); r.IntN(3) == 0 && !sc.Calls[j].Callback {
			sc.Calls[i].After = j + 1
			sc.Calls[i].StartUs = int64(r.IntN(2)) * int64(r.IntN(300))
		}
	}
	if r.IntN(6) == 0 && len(sc.Calls) > 1 {
		// two bursts separated by a long quiet period (longer than the servers' idle-worker collection and the
		// clients' ping interval): whatever the servers and connections tidy up while idle must not change how the
		// second burst is served
		gap := int64(61_000_000 + r.IntN(60_000_000))
		for i := len(sc.Calls) / 2; i < len(sc.Calls); i++ {
			if sc.Calls[i].After == 0 {
				sc.Calls[i].StartUs += gap
			}
		}
	}
	if faulty && len(sc.Calls) >= 2 && (r.IntN(5) == 0 || forceDirected == "idle") {
		// directed: an established, idle connection is reset at the moment the next call is issued on it (the
		// client removes a dead idle connection while a caller is looking it up)
		first, later := &sc.Calls[0], &sc.Calls[len(sc.Calls)-1]
		first.Handler, first.StartUs, first.DeadlineUs, first.CustomTimeoutMs, first.CancelAt, first.GateUs = "echo", 0, 0, 0, 0, 0
		later.Client, later.Server, later.After, first.After = first.Client, first.Server, 0, 0
		later.StartUs = int64(50_000 + r.IntN(200_000))
		at := later.StartUs // the same instant: the scheduler interleaves the teardown with the caller's look-up
		if r.IntN(2) == 0 {
			at = max(0, later.StartUs-int64(r.IntN(400))+int64(r.IntN(100)))
		}
		if r.IntN(2) == 0 {
			// the caller arrives at a seeded point of the teardown (a goroutine that only yields spends no simulated time)
			later.PreYields = r.IntN(160)
		}
		if r.IntN(2) == 0 {
			// nothing else on that client: the connection is certainly idle and the only one there is
			later.CancelAt, later.CancelOnReply = 0, 0
			sc.Calls = []callSpec{*first, *later}
		}
		sc.Faults = append(sc.Faults, faultSpec{Kind: "reset", Target: r.IntN(2), AtUs: at})
		sc.IdleTeardown = true
	}
	if faulty && len(sc.Calls) >= 2 && r.IntN(8) == 0 {
		// directed: the server goes away early, later calls queue on a connection that is waiting to reconnect,
		// and the client is closed during that back-off: closing must make every queued call return
		srv, cli := r.IntN(ns), r.IntN(nc)
		t1 := int64(500 + r.IntN(5000))
		sc.Faults = append(sc.Faults, faultSpec{Kind: "server_close", Target: srv, AtUs: t1})
		for i := len(sc.Calls) / 2; i < len(sc.Calls); i++ {
			c := &sc.Calls[i]
			c.Client, c.Server, c.After, c.FailFast = cli, srv, 0, false
			c.StartUs = t1 + int64(1000+r.IntN(100_000))
			if r.IntN(2) == 0 {
				c.DeadlineUs, c.CustomTimeoutMs, c.CancelAt, c.CancelOnReply = 0, 0, 0, 0
			}
		}
		sc.Faults = append(sc.Faults, faultSpec{Kind: "client_close", Target: cli, AtUs: t1 + int64(150_000+r.IntN(3_000_000))})
	}
	if faulty {
		nf := r.IntN(4)
		for i := 0; i < nf; i++ {
			f := faultSpec{AtUs: int64(r.IntN(40)) * int64(1+r.IntN(3000))}
			switch r.IntN(7) {
			case 0, 1:
				f.Kind, f.Target = "reset", r.IntN(4)
			case 2, 3:
				f.Kind, f.Target, f.DurMs = "stall", r.IntN(4), int64(1)<<uint(r.IntN(16))
			case 4:
				f.Kind, f.Target = "server_shutdown", r.IntN(ns)
			case 5:
				f.Kind, f.Target = "server_close", r.IntN(ns)
			default:
				f.Kind, f.Target = "client_close", r.IntN(nc)
			}
			sc.Faults = append(sc.Faults, f)
		}
		sc.DialRefusePct = []int{0, 0, 10, 40}[r.IntN(4)]
	}
	sc.MaxSegment = []int{0, 0, 1, 7, 64, 1500}[r.IntN(6)]
	sc.MaxRead = []int{0, 0, 1, 5, 128}[r.IntN(5)]
	sc.JitterUs = []int{0, 20, 2000}[r.IntN(3)]
	sc.Capacity = []int{0, 0, 64, 1024}[r.IntN(4)]
	sc.Strategy = r.IntN(vrt.NumStrategies)
	sc.TimeAdvPct = []int{0, 0, 2, 10}[r.IntN(4)]
	sc.PoolPolicy = r.IntN(vrt.NumPoolPolicies)
	sc.MapPolicy = r.IntN(vrt.NumMapPolicies)
	sc.CondRandom = r.IntN(2) == 0
	sc.YieldUnlock = r.IntN(2) == 0
	if sc.YieldUnlock && r.IntN(2) == 0 {
		sc.HoldPermille = []int{2, 5, 20}[r.IntN(3)]
	}
	if sc.IdleTeardown && r.IntN(4) != 0 {
		// the teardown takes tens of steps: callers that have just released a lock are held back more often
		sc.YieldUnlock, sc.HoldPermille = true, []int{60, 150, 300}[r.IntN(3)]
		if r.IntN(2) == 0 {
			sc.Strategy = 0
		}
	}
	sc.CryptoSeed = r.Uint64()
	sc.MaxAdvanceExp = 10 // ~1 ms: a fault-free run must not starve the process into its own timeouts
	if faulty {
		sc.MaxAdvanceExp = []int{10, 16, 23}[r.IntN(3)]
	}
	return sc
}

func callsShrink(sc callsScenario) []callsScenario {
	var out []callsScenario
	cp := func() callsScenario {
		c := sc
		c.Calls = append([]callSpec{}, sc.Calls...)
		c.Faults = append([]faultSpec{}, sc.Faults...)
		c.Servers = append([]srvSpec{}, sc.Servers...)
		c.Clients = append([]cliSpec{}, sc.Clients...)
		return c
	}
	if len(sc.Calls) > 1 {
		c := cp()
		c.Calls = c.Calls[:len(c.Calls)/2]
		out = append(out, c)
		c = cp()
		c.Calls = c.Calls[len(c.Calls)/2:]
		out = append(out, c)
		for i := range sc.Calls {
			c := cp()
			c.Calls = append(c.Calls[:i], c.Calls[i+1:]...)
			out = append(out, c)
		}
	}
	for i := range sc.Faults {
		c := cp()
		c.Faults = append(c.Faults[:i], c.Faults[i+1:]...)
		out = append(out, c)
	}
	for i, cl := range sc.Calls {
		if cl.BodyLen > 0 {
			c := cp()
			c.Calls[i].BodyLen = 0
			out = append(out, c)
		}
		if cl.Extra.Flags != 0 || cl.RespExtra.Flags != 0 || cl.ActorID != 0 || cl.TL2 {
			c := cp()
			c.Calls[i].Extra.Flags, c.Calls[i].RespExtra.Flags, c.Calls[i].ActorID, c.Calls[i].TL2 = 0, 0, 0, false
			out = append(out, c)
		}
		if cl.Callback || cl.FailFast || cl.StartUs != 0 {
			c := cp()
			c.Calls[i].Callback, c.Calls[i].FailFast, c.Calls[i].StartUs = false, false, 0
			out = append(out, c)
		}
		if cl.Handler != "echo" {
			c := cp()
			c.Calls[i].Handler = "echo"
			out = append(out, c)
		}
	}
	if sc.MaxSegment != 0 || sc.MaxRead != 0 || sc.JitterUs != 0 || sc.Capacity != 0 {
		c := cp()
		c.MaxSegment, c.MaxRead, c.JitterUs, c.Capacity = 0, 0, 0, 0
		out = append(out, c)
	}
	if sc.DialRefusePct != 0 {
		c := cp()
		c.DialRefusePct = 0
		out = append(out, c)
	}
	if sc.TimeAdvPct != 0 {
		c := cp()
		c.TimeAdvPct = 0
		out = append(out, c)
	}
	if sc.Strategy != 0 {
		c := cp()
		c.Strategy = 0
		out = append(out, c)
	}
	if sc.PoolPolicy != 0 || sc.MapPolicy != 0 || sc.CondRandom {
		c := cp()
		c.PoolPolicy, c.MapPolicy, c.CondRandom = 0, 0, false
		out = append(out, c)
	}
	return out
}

// ---------------------------------------------------------------------------------------------

func xs(x *uint64) uint64 {
	*x ^= *x << 13
	*x ^= *x >> 7
	*x ^= *x << 17
	return *x
}

func mkReqExtra(sp extraSpec) RequestExtra {
	var e RequestExtra
	x := sp.Seed | 1
	str := func() string { return fmt.Sprintf("s%x", xs(&x)%0xFFFFF) }
	for _, b := range reqExtraBits {
		if sp.Flags&(1<<b) == 0 {
			continue
		}
		switch b {
		case 9:
			e.SetRequesterId(int64(xs(&x)))
		case 15:
			e.SetWaitShardsBinlogPos(map[string]int64{str(): int64(xs(&x)), str(): int64(xs(&x))})
		case 16:
			e.SetWaitBinlogPos(int64(xs(&x)))
		case 18:
			e.SetStringForwardKeys([]string{str(), str()})
		case 19:
			e.SetIntForwardKeys([]int64{int64(xs(&x)), int64(xs(&x)), 7})
		case 20:
			e.SetStringForward(str())
		case 21:
			e.SetIntForward(int64(xs(&x)))
		case 25:
			e.SetSupportedCompressionVersion(int32(xs(&x)))
		case 26:
			e.SetRandomDelay(float64(xs(&x)%1000) / 8)
		case 29:
			var tc TraceContext
			tc.TraceId.Lo, tc.TraceId.Hi = int64(xs(&x)), int64(xs(&x))
			tc.FieldsMask = uint32(xs(&x)) & 0xF3 // status/level/debug bits
			if xs(&x)%2 == 0 {
				tc.SetParentId(int64(xs(&x)))
			}
			if xs(&x)%2 == 0 {
				tc.SetSourceId(str())
			}
			e.SetTraceContext(tc)
		case 30:
			e.SetExecutionContext(str() + str())
		default:
			e.Flags |= 1 << b // TrueType fields
		}
	}
	return e
}

func mkRespExtra(sp extraSpec) ResponseExtra {
	var e ResponseExtra
	x := sp.Seed | 1
	str := func() string { return fmt.Sprintf("r%x", xs(&x)%0xFFFFF) }
	for _, b := range respExtraBits {
		if sp.Flags&(1<<b) == 0 {
			continue
		}
		switch b {
		case 0:
			e.SetBinlogPos(int64(xs(&x)))
		case 1:
			e.SetBinlogTime(int64(xs(&x)))
		case 2:
			e.EnginePid.Ip, e.EnginePid.PortPid, e.EnginePid.Utime = uint32(xs(&x)), uint32(xs(&x)), uint32(xs(&x))
			e.Flags |= 1 << 2
		case 3:
			e.SetRequestSize(int32(xs(&x)))
			e.SetResponseSize(int32(xs(&x)))
		case 4:
			e.SetFailedSubqueries(int32(xs(&x)))
		case 5:
			e.SetCompressionVersion(int32(xs(&x)))
		case 6:
			e.SetStats(map[string]string{str(): str(), str(): str()})
		case 14:
			e.SetShardsBinlogPos(map[string]int64{str(): int64(xs(&x))})
		case 27:
			e.SetEpochNumber(int64(xs(&x)))
			e.SetViewNumber(int64(xs(&x)))
		}
	}
	return e
}

// simI is what the harness needs from the simulation: the token scheduler (*vrt.Sim) in the
// instrumented configurations, a plain counter/clock object in the -race configuration, where
// goroutine scheduling is left to the Go runtime inside the bubble.
type simI interface {
	Count(string)
	Fired(string)
	Fail(class, msg string)
	Failed() bool
	Now() time.Duration
	After(time.Duration, func())
	Notef(string, ...any)
	Describe() string
	Starved() time.Duration
	Choose(n int) int
	Fair()
}

type tokenSim struct{ *vrt.Sim }

func (t tokenSim) Choose(n int) int { return t.Tape.Next(n) }

type plainSim struct {
	mu    sync.Mutex
	start time.Time
	rng   *rand.Rand
	stats map[string]int
	viol  []vrt.Violation
	notes []string
}

func (p *plainSim) Count(k string) { p.mu.Lock(); p.stats[k]++; p.mu.Unlock() }
func (p *plainSim) Fired(k string) { p.mu.Lock(); p.stats["fault."+k]++; p.mu.Unlock() }
func (p *plainSim) Fail(class, msg string) {
	p.mu.Lock()
	p.viol = append(p.viol, vrt.Violation{Class: class, Msg: msg})
	p.mu.Unlock()
}
func (p *plainSim) Failed() bool                  { p.mu.Lock(); defer p.mu.Unlock(); return len(p.viol) > 0 }
func (p *plainSim) Now() time.Duration            { return time.Since(p.start) }
func (p *plainSim) After(d time.Duration, f func()) { time.AfterFunc(d, f) }
func (p *plainSim) Notef(format string, a ...any) {
	p.mu.Lock()
	if len(p.notes) < 200 {
		p.notes = append(p.notes, fmt.Sprintf("t=%v ", time.Since(p.start))+fmt.Sprintf(format, a...))
	}
	p.mu.Unlock()
}
func (p *plainSim) Describe() string              { return " (runtime-scheduled run: no goroutine table)" }
func (p *plainSim) Starved() time.Duration        { return 0 }
func (p *plainSim) Fair()                         {}
func (p *plainSim) Choose(n int) int {
	if n <= 1 {
		return 0
	}
	p.mu.Lock()
	defer p.mu.Unlock()
	return p.rng.IntN(n)
}

type callState struct {
	spec       callSpec
	idx        int
	token      uint64
	done       bool
	completions int
	err        error
	body       []byte
	respExtra  []byte // canonical serialisation of what the client saw
	startedAt  time.Duration
	doneAt     time.Duration
	cancelled  bool // the harness cancelled its context
	cancelOK   bool // CancelDoCallback returned true
	cancel     context.CancelFunc
	gate       chan struct{}
	gateOpen   bool
	atGate     bool
	atGateSince time.Duration
	cc         CallbackContext
	ccSet      bool
	// server-side observations
	handled    int
	seenExtra  []byte
	seenActor  int64
	seenTL2    bool
	defaultTimeoutMs int32 // the client's default timeout if it applies to this call (no own timeout, not explicitly infinite)
	sentExtraFlags uint32 // request flags as the client sent them (after the client's documented normalisation)
	wantReqExtra []byte
	hadDeadline bool
	// long poll (handler "longpoll"): started by the sync handler, answered later by a finisher goroutine, by the
	// server's empty response at 7/8 of the timeout, or never (cancelled)
	lh             LongpollHandle
	lpStarted      bool
	lpCancelled    bool // the server told the canceller that the long poll is gone
	lpFinishedOK   bool // FinishLongpoll handed out a context and the finisher answered
	lpEmptyWritten bool // the server asked for the empty response
}

type callsRun struct {
	mu      sync.Mutex // guards every field below and every callState (needed when the runtime schedules; uncontended under the token scheduler and never held across a scheduling point)
	sc      callsScenario
	sim     simI
	net     *vrt.Net
	servers []*Server
	srvDone []chan struct{}
	srvClosed []bool
	clients []Client
	cliClosed []bool
	calls   []*callState
	byToken map[uint64]*callState
	running []int // handlers executing per server
	load    []int64 // lower bound of the request memory held by executing handlers per server
	maxRunning []int
	pendingCalls int
	windingDown bool // follow-up calls are not started any more
	midPacketTimeouts atomic.Int32
	lpStop  chan struct{} // closed when the run winds up: parked long-poll finishers go away
	faultsFired int
	lastProgress time.Duration
	fairOn  bool // the schedule is fair from here on: the no-progress watchdog is meaningful
	phase   string
}

func (r *callsRun) fail(class, msg string) {
	if r.sc.Focus == "C39" && (class == "C38/stuck-call" || class == "C38/stuck" || class == "C38/call-never-returns") {
		// bounded liveness of admission: load that waited for a worker or for request memory must get in
		// once handlers finish; an accounting leak shows up as a call that never completes
		class = "C39/waiting-load-never-admitted"
	}
	if class == "panic" && r.sc.Focus != "" {
		class = r.sc.Focus + "/panic" // a panic inside the client or server while this property's workload ran
	}
	if r.sc.Focus != "" && len(class) > 3 && class[:3] != r.sc.Focus && class != "machinery" {
		r.sim.Count("other_property_class." + class)
		return
	}
	r.sim.Fail(class, msg)
}

func (r *callsRun) progress() { r.lastProgress = r.sim.Now() }

// anyFault: a close, shutdown, connection fault or dial refusal happened, or the process was starved
// (clock advanced while goroutines were runnable) long enough to matter for the 10 s packet timeout.
func (r *callsRun) anyFault() bool {
	if r.faultsFired > 0 || r.sim.Starved() >= 2*time.Second || r.midPacketTimeouts.Load() > 0 {
		return true
	}
	// a handler held at its gate for seconds keeps a worker busy: with every worker busy the server's
	// receive loop waits for one and answers no ping, so clients legitimately drop the connection
	for _, cs := range r.calls {
		if cs.atGate && r.sim.Now()-cs.atGateSince >= 5*time.Second {
			return true
		}
	}
	st := r.net.Stats()
	return st["fault.dial_refused"]+st["fault.dial_refused_no_listener"]+st["fault.conn_reset"] > 0
}

func tokenOf(body []byte) (uint64, bool) {
	if len(body) < 12 {
		return 0, false
	}
	return binary.LittleEndian.Uint64(body[4:12]), true
}

func (r *callsRun) handler(si int) HandlerFunc {
	return func(ctx context.Context, hctx *HandlerContext) error {
		if len(hctx.Request) < 12 || !knownReqTag(binary.LittleEndian.Uint32(hctx.Request)) {
			r.fail("C38/garbled-request", fmt.Sprintf("server %d handler received a request that no client sent: %x", si, hctx.Request[:min(len(hctx.Request), 24)]))
			return &Error{Code: -1, Description: "garbled"}
		}
		token, _ := tokenOf(hctx.Request)
		r.mu.Lock()
		cs := r.byToken[token]
		if cs == nil {
			r.fail("C38/garbled-request", fmt.Sprintf("server %d handler received unknown token %x", si, token))
			r.mu.Unlock()
			return &Error{Code: -1, Description: "unknown token"}
		}
		if cs.spec.Server != si {
			r.fail("C38/misrouted-request", fmt.Sprintf("call %d addressed to server %d was handled by server %d", cs.idx, cs.spec.Server, si))
		}
		cs.handled++
		if cs.handled > 1 {
			r.fail("C38/duplicate-execution", fmt.Sprintf("call %d (token %x) reached a handler %d times", cs.idx, token, cs.handled))
		}
		want := callBody(cs)
		if !bytes.Equal(hctx.Request, want) {
			r.fail("C38/garbled-request", fmt.Sprintf("call %d: handler saw a body of %d bytes that differs from the %d bytes sent", cs.idx, len(hctx.Request), len(want)))
		}
		cs.seenExtra = hctx.RequestExtra.WriteTL1(nil)
		cs.seenActor = hctx.ActorID()
		cs.seenTL2 = hctx.BodyFormatTL2()
		// C39: concurrency accounting at handler entry
		r.running[si]++
		if r.running[si] > r.maxRunning[si] {
			r.maxRunning[si] = r.running[si]
		}
		if r.running[si] > r.sc.Servers[si].MaxWorkers {
			r.fail("C39/worker-limit-exceeded", fmt.Sprintf("server %d: %d handlers executing concurrently, MaxWorkers=%d", si, r.running[si], r.sc.Servers[si].MaxWorkers))
		}
		if r.running[si] == r.sc.Servers[si].MaxWorkers {
			r.sim.Count("probe.worker_pool_full")
		}
		r.checkReqMem(si, "handler entry")
		// The same limit judged without the server's own counter: every executing handler still holds its request
		// (released only when the response is sent), and a request takes at least max(body, RequestBufSize). If the
		// sum over executing handlers exceeds the limit, excess load was admitted - whatever the counter says.
		take := int64(max(len(want), r.sc.Servers[si].ReqBuf))
		r.load[si] += take
		limit := int64(r.servers[si].opts.RequestMemoryLimit) // the effective limit (the options clamp small values)
		if r.load[si] > limit {
			r.fail("C39/request-memory-limit-exceeded", fmt.Sprintf("server %d: requests held by executing handlers add up to at least %d bytes > RequestMemoryLimit %d (admitted without waiting)", si, r.load[si], limit))
		}
		if r.load[si]+int64(r.sc.Servers[si].ReqBuf) > limit {
			r.sim.Count("probe.admitted_load_at_limit")
		}
		r.mu.Unlock()
		defer func() { r.mu.Lock(); r.running[si]--; r.load[si] -= take; r.mu.Unlock() }()
		if k := cs.spec.CancelOnReply; k > 0 && !cs.spec.Callback {
			defer vrt.Go(fmt.Sprintf("cancel-on-reply%d", cs.idx), func() {
				// the reply leaves now and reaches the client one network latency later: sleep that long (yields
				// alone would all be spent before simulated time moves), then a few more scheduling points
				d := 20 * time.Microsecond
				if j := r.sc.JitterUs; j > 0 && k%2 == 0 {
					d += time.Duration(k*7919%(j+1)) * time.Microsecond
				}
				time.Sleep(d)
				for i := 0; i < k%40; i++ {
					vrt.Yield("harness.cancel-on-reply")
				}
				r.mu.Lock()
				if cs.done || cs.cancel == nil {
					r.mu.Unlock()
					return
				}
				cs.cancelled = true
				cancel := cs.cancel
				r.mu.Unlock()
				r.sim.Fired("call_cancelled_while_reply_in_flight")
				cancel()
			})
		}
		hctx.ResponseExtra = mkRespExtra(cs.spec.RespExtra)
		// A handler may change hctx.RequestExtra (every proxy adds and clears bits); the response must still be
		// masked by the flags the client sent.
		switch cs.spec.MutateReqExtra {
		case 1:
			hctx.RequestExtra = RequestExtra{}
		case 2:
			hctx.RequestExtra.Flags &^= uint32(cs.spec.RespExtra.Seed)
		case 3:
			hctx.RequestExtra.Flags = 0xFFFFFFFF &^ (1 << 7)
		}
		if cs.spec.MutateReqExtra != 0 {
			r.sim.Count("probe.handler_mutated_request_extra")
		}
		switch cs.spec.Handler {
		case "rpcerr":
			e := &Error{Code: cs.spec.ErrCode, Description: fmt.Sprintf("err-token-%016x", token)}
			if cs.spec.WrapErr {
				return fmt.Errorf("failed to handle call %d: %w", cs.idx, e)
			}
			return e
		case "goerr":
			return fmt.Errorf("plain-token-%016x", token)
		case "panic":
			panic(fmt.Sprintf("boom-token-%016x", token))
		case "gate":
			r.sim.Count("probe.handler_waited_at_gate")
			r.mu.Lock()
			cs.atGate, cs.atGateSince = true, r.sim.Now()
			r.mu.Unlock()
			sel := vrt.NewSel("harness.gate")
			vrt.SelRecv(sel, cs.gate)
			if !cs.spec.Deaf {
				vrt.SelRecv(sel, ctx.Done())
			} else {
				r.sim.Count("probe.handler_ignores_its_context")
			}
			if sel.Wait(false) == 1 {
				r.sim.Count("probe.gated_handler_ctx_done")
				return ctx.Err()
			}
		}
		hctx.Response = binary.LittleEndian.AppendUint32(hctx.Response, respTag)
		hctx.Response = binary.LittleEndian.AppendUint64(hctx.Response, token)
		hctx.Response = binary.LittleEndian.AppendUint32(hctx.Response, uint32(si))
		hctx.Response = append(hctx.Response, hctx.Request[12:]...)
		return nil
	}
}

func emptyRespBody(cs *callState) []byte {
	b := binary.LittleEndian.AppendUint32(nil, respTag)
	b = binary.LittleEndian.AppendUint64(b, cs.token)
	return binary.LittleEndian.AppendUint32(b, 0xE0E0E0E0)
}

// syncHandler runs in the connection's receive loop for every request. Long-poll calls are parked here
// (StartLongpoll) and answered later; everything else goes on to the worker pool (ErrNoHandler).
func (r *callsRun) syncHandler(si int) HandlerFunc {
	return func(ctx context.Context, hctx *HandlerContext) error {
		token, ok := tokenOf(hctx.Request)
		if !ok || !knownReqTag(binary.LittleEndian.Uint32(hctx.Request)) {
			return ErrNoHandler // the ordinary handler reports garbled requests
		}
		r.mu.Lock()
		cs := r.byToken[token]
		if cs == nil || cs.spec.Handler != "longpoll" {
			r.mu.Unlock()
			return ErrNoHandler
		}
		if cs.spec.Server != si {
			r.fail("C38/misrouted-request", fmt.Sprintf("call %d addressed to server %d was handled by server %d", cs.idx, cs.spec.Server, si))
		}
		cs.handled++
		if cs.handled > 1 {
			r.fail("C38/duplicate-execution", fmt.Sprintf("call %d (token %x) reached a handler %d times", cs.idx, token, cs.handled))
		}
		if want := callBody(cs); !bytes.Equal(hctx.Request, want) {
			r.fail("C38/garbled-request", fmt.Sprintf("call %d: sync handler saw a body of %d bytes that differs from the %d bytes sent", cs.idx, len(hctx.Request), len(want)))
		}
		cs.seenExtra = hctx.RequestExtra.WriteTL1(nil)
		cs.seenActor = hctx.ActorID()
		cs.seenTL2 = hctx.BodyFormatTL2()
		r.mu.Unlock()
		lh, err := hctx.StartLongpoll(&lpCanceller{r: r, cs: cs})
		if err != nil {
			r.sim.Count("probe.longpoll_start_refused")
			return err // connection or server in shutdown: the error is the answer
		}
		r.sim.Count("probe.longpoll_started")
		r.mu.Lock()
		cs.lh, cs.lpStarted = lh, true
		r.mu.Unlock()
		vrt.Go(fmt.Sprintf("lpfinish%d", cs.idx), func() { r.finishLongpoll(cs) })
		return nil
	}
}

// finishLongpoll answers a parked long poll once its gate opens (or the run is wound up).
func (r *callsRun) finishLongpoll(cs *callState) {
	sel := vrt.NewSel("harness.longpoll.gate")
	vrt.SelRecv(sel, cs.gate)
	vrt.SelRecv(sel, r.lpStop)
	if sel.Wait(false) == 1 {
		return
	}
	r.mu.Lock()
	cancelledBefore := cs.lpCancelled
	emptyBefore := cs.lpEmptyWritten
	lh := cs.lh
	r.mu.Unlock()
	hctx, ok := lh.FinishLongpoll()
	if !ok {
		r.sim.Count("probe.longpoll_finish_lost_race")
		return
	}
	r.mu.Lock()
	if cancelledBefore {
		r.fail("C38/longpoll-answered-after-cancel", fmt.Sprintf("call %d: FinishLongpoll handed out a context although the server had already reported this long poll cancelled", cs.idx))
	}
	if emptyBefore || cs.lpEmptyWritten {
		r.fail("C38/longpoll-answered-twice", fmt.Sprintf("call %d: FinishLongpoll handed out a context although the server had already taken the empty-response route", cs.idx))
	}
	cs.lpFinishedOK = true
	r.mu.Unlock()
	hctx.ResponseExtra = mkRespExtra(cs.spec.RespExtra)
	hctx.Response = binary.LittleEndian.AppendUint32(hctx.Response, respTag)
	hctx.Response = binary.LittleEndian.AppendUint64(hctx.Response, cs.token)
	hctx.Response = binary.LittleEndian.AppendUint32(hctx.Response, uint32(cs.spec.Server))
	hctx.Response = append(hctx.Response, callBody(cs)[12:]...)
	hctx.SendLongpollResponse(nil)
	r.sim.Count("probe.longpoll_finished_by_handler")
}

type lpCanceller struct {
	r  *callsRun
	cs *callState
}

func (c *lpCanceller) CancelLongpoll(lh LongpollHandle) {
	c.r.mu.Lock()
	defer c.r.mu.Unlock()
	if c.cs.lpFinishedOK {
		c.r.fail("C38/longpoll-cancelled-after-answer", fmt.Sprintf("call %d: the server cancelled a long poll that FinishLongpoll had already handed out", c.cs.idx))
	}
	c.cs.lpCancelled = true
	c.r.sim.Count("probe.longpoll_cancelled_by_server")
}

func (c *lpCanceller) WriteEmptyResponse(lh LongpollHandle, hctx *HandlerContext) error {
	c.r.mu.Lock()
	if c.cs.lpFinishedOK {
		c.r.fail("C38/longpoll-answered-twice", fmt.Sprintf("call %d: the server asked for the empty response of a long poll that FinishLongpoll had already handed out", c.cs.idx))
	}
	c.cs.lpEmptyWritten = true
	c.r.mu.Unlock()
	hctx.ResponseExtra = mkRespExtra(c.cs.spec.RespExtra)
	hctx.Response = append(hctx.Response, emptyRespBody(c.cs)...)
	c.r.sim.Count("probe.longpoll_empty_response_written")
	return nil
}

func (r *callsRun) checkReqMem(si int, where string) {
	cur, total, ok := r.servers[si].reqMemSem.VerifPeek()
	if !ok {
		r.sim.Count("probe.request_memory_peek_busy")
		return
	}
	if cur > total {
		r.fail("C39/request-memory-limit-exceeded", fmt.Sprintf("server %d at %s: request memory accounted %d > limit %d", si, where, cur, total))
	}
	if cur > 0 {
		r.sim.Count("probe.request_memory_in_use_at_check")
	}
	if cur > 0 && cur+int64(r.sc.Servers[si].ReqBuf) > total {
		r.sim.Count("probe.request_memory_full_next_request_must_wait")
	}
}

// Servers with DisableSpecialHandlers pass the engine.* / go.pprof / net.dumpUdpTargets request tags to the user
// handler like any other request; calls to such servers sometimes use them.
var specialTags = []uint32{tlengine.Pid{}.TLTag(), tlengine.Stat{}.TLTag(), tlengine.FilteredStat{}.TLTag(), tlengine.Version{}.TLTag(),
	tlengine.SetVerbosity{}.TLTag(), tlengine.Sleep{}.TLTag(), tlengine.AsyncSleep{}.TLTag(), tlgo.Pprof{}.TLTag(), tlnet.DumpUdpTargets{}.TLTag()}

func tagOf(sp callSpec) uint32 {
	if sp.TagKind > 0 && sp.TagKind <= len(specialTags) {
		return specialTags[sp.TagKind-1]
	}
	return reqTag
}

func knownReqTag(t uint32) bool {
	if t == reqTag {
		return true
	}
	for _, x := range specialTags {
		if x == t {
			return true
		}
	}
	return false
}

func callBody(cs *callState) []byte {
	b := binary.LittleEndian.AppendUint32(nil, tagOf(cs.spec))
	b = binary.LittleEndian.AppendUint64(b, cs.token)
	x := cs.token | 1
	for i := 0; i < cs.spec.BodyLen&^3; i++ { // TL bodies are 4-byte aligned (protocol 0 insists on it)
		b = append(b, byte(xs(&x)>>11))
	}
	return b
}

func wantRespBody(cs *callState) []byte {
	b := binary.LittleEndian.AppendUint32(nil, respTag)
	b = binary.LittleEndian.AppendUint64(b, cs.token)
	b = binary.LittleEndian.AppendUint32(b, uint32(cs.spec.Server))
	return append(b, callBody(cs)[12:]...)
}

// complete is called exactly once per call with its outcome (from Do's return or from the callback).
func (r *callsRun) complete(cs *callState, resp *Response, err error) {
	r.mu.Lock()
	defer r.mu.Unlock()
	cs.completions++
	if cs.completions > 1 {
		r.fail("C38/double-completion", fmt.Sprintf("call %d completed %d times", cs.idx, cs.completions))
		return
	}
	if cs.cancelOK {
		r.fail("C38/callback-after-cancel", fmt.Sprintf("call %d: callback ran although CancelDoCallback had reported a successful cancel", cs.idx))
	}
	cs.done, cs.err, cs.doneAt = true, err, r.sim.Now()
	r.sim.Notef("HARNESS call %d completed: err=%v", cs.idx, err)
	if resp != nil {
		cs.body = append([]byte{}, resp.Body...)
		cs.respExtra = resp.Extra.WriteTL1(nil)
	}
	r.pendingCalls--
	r.progress()
	r.judge(cs)
}

func otherToken(text string, own uint64) (string, bool) {
	for _, marker := range []string{"err-token-", "plain-token-", "boom-token-"} {
		rest := text
		for {
			i := strings.Index(rest, marker)
			if i < 0 {
				break
			}
			t := rest[i+len(marker):]
			if len(t) >= 16 {
				if t[:16] != fmt.Sprintf("%016x", own) {
					return t[:16], true
				}
			}
			rest = rest[i+len(marker):]
		}
	}
	return "", false
}

// judge applies the per-call oracle (C38: own response; C40: extras and error codes unchanged).
// checkRespExtra (C40): response extra = what the handler set, masked by the request's flag bits (documented). The
// extras travel with error responses exactly as with successes: a handler that fills hctx.ResponseExtra and then
// returns an error has its extras delivered next to the error.
func (r *callsRun) checkRespExtra(cs *callState, what string) {
	want := mkRespExtra(cs.spec.RespExtra)
	want.Flags &= cs.sentExtraFlags
	wb := (&want).WriteTL1(nil)
	var wantNorm ResponseExtra
	_, _ = wantNorm.ReadTL1(wb)
	if got, w := hex.EncodeToString(cs.respExtra), hex.EncodeToString(wantNorm.WriteTL1(nil)); got != w {
		r.fail("C40/response-extra-changed", fmt.Sprintf("call %d (%s): response extra seen by the client %s, handler set (masked by request flags %#x) %s", cs.idx, what, got, cs.sentExtraFlags, w))
	}
	r.sim.Count("probe.c40_response_extras_compared_" + strings.ReplaceAll(what, " ", "_"))
}

func (r *callsRun) judge(cs *callState) {
	sp := cs.spec
	err := cs.err
	var rpcErr *Error
	switch {
	case err == nil:
		if len(cs.body) >= 12 && binary.LittleEndian.Uint32(cs.body) == respTag {
			if tk, _ := tokenOf(cs.body); tk != cs.token {
				other := "an unknown token"
				if o := r.byToken[tk]; o != nil {
					other = fmt.Sprintf("call %d's token", o.idx)
				}
				r.fail("C38/foreign-response", fmt.Sprintf("call %d (token %x) returned successfully with a body carrying %s (%x)", cs.idx, cs.token, other, tk))
				// what the client was handed is not what this call's handler set: also a C40 matter
				r.fail("C40/response-changed", fmt.Sprintf("call %d: the client was handed the response of another call (token %x), extras included", cs.idx, tk))
				return
			}
		}
		if sp.Handler == "rpcerr" || sp.Handler == "goerr" || sp.Handler == "panic" {
			r.fail("C40/error-changed", fmt.Sprintf("call %d: its handler (%s) ended with an error, but the client saw success with a body of %d bytes (head %x)", cs.idx, sp.Handler, len(cs.body), cs.body[:min(len(cs.body), 16)]))
			r.fail("C38/wrong-response", fmt.Sprintf("call %d returned success but its handler (%s) produced an error", cs.idx, sp.Handler))
			return
		}
		if sp.Handler == "longpoll" && bytes.Equal(cs.body, emptyRespBody(cs)) {
			// the server's own answer at 7/8 of the timeout, written by the canceller on its request
			if !cs.lpEmptyWritten {
				r.fail("C38/wrong-response", fmt.Sprintf("call %d returned the empty long-poll response although the server never asked for one", cs.idx))
				return
			}
			if !cs.hadDeadline && !r.anyFault() { // a connection or server in shutdown also answers its long polls with the empty response
				r.fail("C38/unexpected-timeout", fmt.Sprintf("call %d (long poll) had no deadline or custom timeout but the server timed it out with an empty response", cs.idx))
				return
			}
			r.sim.Count("probe.call_longpoll_empty_response")
		} else if !bytes.Equal(cs.body, wantRespBody(cs)) {
			r.fail("C38/wrong-response", fmt.Sprintf("call %d returned success with a body (%d bytes, head %x) that is not the response its handler produced (%d bytes)", cs.idx, len(cs.body), cs.body[:min(len(cs.body), 16)], len(wantRespBody(cs))))
			// what the handler set did not arrive: the same fact seen from C40 (body and extras travel together)
			r.fail("C40/response-changed", fmt.Sprintf("call %d: the client was handed a success whose body (%d bytes) is not what its handler wrote (%d bytes); response extra seen %x", cs.idx, len(cs.body), len(wantRespBody(cs)), cs.respExtra))
			return
		}
		if sp.Handler == "longpoll" && !cs.lpFinishedOK && !cs.lpEmptyWritten {
			r.fail("C38/wrong-response", fmt.Sprintf("call %d (long poll) returned success although neither the finisher nor the empty-response route answered it", cs.idx))
			return
		}
		if sp.Handler == "longpoll" {
			r.sim.Count("probe.call_longpoll_success")
		}
		if sp.Handler != "echo" && sp.Handler != "gate" && sp.Handler != "longpoll" {
			r.fail("C38/wrong-response", fmt.Sprintf("call %d returned success but its handler (%s) produced an error", cs.idx, sp.Handler))
			return
		}
		r.sim.Count("probe.call_success")
		r.checkRespExtra(cs, "a success")
	case errors.As(err, &rpcErr):
		if tk, foreign := otherToken(rpcErr.Description, cs.token); foreign {
			r.fail("C38/foreign-response", fmt.Sprintf("call %d (token %x) got an RPC error produced for token %s: %v", cs.idx, cs.token, tk, rpcErr))
			return
		}
		own := strings.Contains(rpcErr.Description, fmt.Sprintf("%016x", cs.token))
		switch {
		case own && sp.Handler == "rpcerr":
			wantCode := sp.ErrCode
			if wantCode == 0 {
				wantCode = tlerrorcodes.Unknown
			}
			if rpcErr.Code != wantCode || rpcErr.Description != fmt.Sprintf("err-token-%016x", cs.token) {
				r.fail("C40/error-changed", fmt.Sprintf("call %d: handler returned code %d %q, client saw code %d %q", cs.idx, sp.ErrCode, fmt.Sprintf("err-token-%016x", cs.token), rpcErr.Code, rpcErr.Description))
			}
			r.sim.Count("probe.call_rpc_error")
			r.checkRespExtra(cs, "an rpc error")
		case own && sp.Handler == "goerr":
			if rpcErr.Code != tlerrorcodes.Unknown || rpcErr.Description != fmt.Sprintf("plain-token-%016x", cs.token) {
				r.fail("C40/error-changed", fmt.Sprintf("call %d: plain handler error arrived as code %d %q", cs.idx, rpcErr.Code, rpcErr.Description))
			}
			r.sim.Count("probe.call_plain_error")
			r.checkRespExtra(cs, "a plain error")
		case own && sp.Handler == "panic":
			if rpcErr.Code != tlerrorcodes.Internal {
				r.fail("C40/error-changed", fmt.Sprintf("call %d: handler panic arrived as code %d", cs.idx, rpcErr.Code))
			}
			r.sim.Count("probe.call_handler_panic_recovered")
		case own:
			r.fail("C38/wrong-response", fmt.Sprintf("call %d: error text carries its token but its handler (%s) does not produce such an error: %v", cs.idx, sp.Handler, rpcErr))
		case rpcErr.Code == tlerrorcodes.GracefulShutdown && sp.Handler == "longpoll":
			// StartLongpoll refuses to park a request on a connection or server that is shutting down; the sync
			// handler returns that error, which is this call's own answer
			if !r.anyFault() {
				r.fail("C38/unexpected-error", fmt.Sprintf("call %d: long poll refused for shutdown although nothing was shut down: %v", cs.idx, rpcErr))
			}
			r.sim.Count("probe.call_longpoll_refused_in_shutdown")
		case rpcErr.Code == tlerrorcodes.Timeout:
			if !cs.hadDeadline {
				r.fail("C38/unexpected-timeout", fmt.Sprintf("call %d had no deadline or custom timeout but got a server timeout error: %v", cs.idx, rpcErr))
			}
			r.sim.Count("probe.call_server_timeout")
		case strings.Contains(rpcErr.Description, "context canceled") || strings.Contains(rpcErr.Description, "server Close called"):
			// a gated handler observed its connection context being cancelled (close / reset): the error belongs to this call
			if !r.anyFault() && !cs.cancelled {
				r.fail("C38/unexpected-error", fmt.Sprintf("call %d: handler context was cancelled although nothing was closed: %v", cs.idx, rpcErr))
			}
			r.sim.Count("probe.call_handler_ctx_cancelled")
		default:
			r.fail("C38/unexpected-error", fmt.Sprintf("call %d (handler %s) got an RPC error that is neither its own nor a timeout: %v", cs.idx, sp.Handler, rpcErr))
		}
	case errors.Is(err, context.DeadlineExceeded):
		if !cs.hadDeadline {
			r.fail("C38/unexpected-timeout", fmt.Sprintf("call %d had no deadline but returned %v", cs.idx, err))
		}
		r.sim.Count("probe.call_deadline_exceeded")
	case errors.Is(err, context.Canceled):
		if !cs.cancelled {
			r.fail("C38/unexpected-cancel", fmt.Sprintf("call %d was not cancelled but returned %v", cs.idx, err))
		}
		r.sim.Count("probe.call_cancelled")
	case errors.Is(err, ErrClientClosed), errors.Is(err, ErrClientConnClosedSideEffect), errors.Is(err, ErrClientConnClosedNoSideEffect):
		if !r.anyFault() {
			r.fail("C38/unexpected-close-error", fmt.Sprintf("call %d returned %v although no close, shutdown or connection fault happened in this run", cs.idx, err))
		}
		r.sim.Count("probe.call_conn_closed_error")
	default:
		r.fail("C38/unexpected-error", fmt.Sprintf("call %d returned an error outside the documented set: %v", cs.idx, err))
	}
	// C40: request side (only if the request reached a handler)
	if cs.handled > 0 {
		if !cs.hadDeadline {
			// "timeout 0" and "no timeout" both mean infinite: compared as equal; a positive timeout is a difference
			var a, b RequestExtra
			_, _ = a.ReadTL1(cs.seenExtra)
			_, _ = b.ReadTL1(cs.wantReqExtra)
			if a.CustomTimeoutMs == 0 {
				a.ClearCustomTimeoutMs()
			}
			if b.CustomTimeoutMs == 0 {
				b.ClearCustomTimeoutMs()
			}
			if got, want := hex.EncodeToString(a.WriteTL1(nil)), hex.EncodeToString(b.WriteTL1(nil)); got != want {
				r.fail("C40/request-extra-changed", fmt.Sprintf("call %d: handler saw request extra %s, client set %s (explicitly infinite: %v)", cs.idx, got, want, sp.ExplicitInfinite))
			}
		}
		if cs.hadDeadline {
			// the client derives CustomTimeoutMs from the deadline: compare everything else
			var a, b RequestExtra
			_, _ = a.ReadTL1(cs.seenExtra)
			_, _ = b.ReadTL1(cs.wantReqExtra)
			if !a.IsSetCustomTimeoutMs() || a.CustomTimeoutMs <= 0 {
				r.fail("C40/request-extra-changed", fmt.Sprintf("call %d has a deadline but the handler saw no positive CustomTimeoutMs", cs.idx))
			}
			// whatever the context deadline is, the timeout on the wire is the smaller of the two: never longer
			// than the custom timeout the client set itself, never longer than the deadline the caller gave
			if sp.CustomTimeoutMs > 0 && a.CustomTimeoutMs > sp.CustomTimeoutMs {
				r.fail("C40/request-extra-changed", fmt.Sprintf("call %d: the client set CustomTimeoutMs %d, the handler saw %d (longer)", cs.idx, sp.CustomTimeoutMs, a.CustomTimeoutMs))
			}
			if sp.DeadlineUs > 0 && int64(a.CustomTimeoutMs) > (sp.DeadlineUs+999)/1000 {
				r.fail("C40/request-extra-changed", fmt.Sprintf("call %d: the caller's deadline was %d µs away at most, the handler saw CustomTimeoutMs %d (longer)", cs.idx, sp.DeadlineUs, a.CustomTimeoutMs))
			}
			if cs.defaultTimeoutMs > 0 && a.CustomTimeoutMs > cs.defaultTimeoutMs {
				r.fail("C40/request-extra-changed", fmt.Sprintf("call %d: the client's default timeout is %d ms, the handler saw CustomTimeoutMs %d (longer)", cs.idx, cs.defaultTimeoutMs, a.CustomTimeoutMs))
			}
			if cs.defaultTimeoutMs > 0 {
				r.sim.Count("probe.c40_default_timeout_applied")
			}
			if sp.CustomTimeoutMs > 0 && sp.DeadlineUs > 0 {
				r.sim.Count("probe.c40_custom_timeout_and_deadline_both_set")
			}
			a.ClearCustomTimeoutMs()
			b.ClearCustomTimeoutMs()
			if got, want := hex.EncodeToString(a.WriteTL1(nil)), hex.EncodeToString(b.WriteTL1(nil)); got != want {
				r.fail("C40/request-extra-changed", fmt.Sprintf("call %d: handler saw request extra %s, client set %s (timeout field excluded)", cs.idx, got, want))
			}
		}
		if cs.seenActor != sp.ActorID || cs.seenTL2 != sp.TL2 {
			r.fail("C40/request-header-changed", fmt.Sprintf("call %d: handler saw actor %d tl2=%v, client set actor %d tl2=%v", cs.idx, cs.seenActor, cs.seenTL2, sp.ActorID, sp.TL2))
		}
		r.sim.Count("probe.c40_request_extras_compared")
	}
}

func (r *callsRun) doCall(cs *callState) {
	sp := cs.spec
	if sp.StartUs > 0 {
		time.Sleep(time.Duration(sp.StartUs) * time.Microsecond)
		vrt.Yield("harness.call.start")
	}
	for i := 0; i < sp.PreYields; i++ {
		vrt.Yield("harness.call.pre")
	}
	cl := r.clients[sp.Client]
	req := cl.GetRequest()
	req.Body = append(req.Body, callBody(cs)...)
	req.ActorID = sp.ActorID
	req.BodyFormatTL2 = sp.TL2
	req.Extra = mkReqExtra(sp.Extra)
	req.FailIfNoConnection = sp.FailFast
	if sp.CustomTimeoutMs > 0 {
		req.Extra.SetCustomTimeoutMs(sp.CustomTimeoutMs)
	} else if sp.ExplicitInfinite {
		req.Extra.SetCustomTimeoutMs(0)
		r.sim.Count("probe.c40_explicit_infinite_timeout")
	}
	defTO := int32(0)
	if !sp.ExplicitInfinite && sp.CustomTimeoutMs == 0 {
		defTO = int32(r.sc.Clients[sp.Client].DefaultTimeoutMs) // applies only to requests that set no timeout of their own
	}
	// documented client normalisation: for requests with an actor id, an execution / tracing context carried
	// by the caller's context fills in the corresponding extra field if (and only if) the request did not set it
	baseCtx := context.Background()
	want := req.Extra
	if sp.CtxExec {
		ec := fmt.Sprintf("exec-ctx-%d", cs.idx)
		baseCtx = WithExecutionContext(baseCtx, ec)
		if sp.ActorID > 0 && !want.IsSetExecutionContext() {
			want.SetExecutionContext(ec)
		}
	}
	if sp.CtxTrace {
		var tc TraceContext
		tc.TraceId.Lo, tc.TraceId.Hi = int64(cs.token), int64(cs.idx)+7
		tc.SetParentId(int64(cs.idx) + 1000)
		tc.SetSourceId(fmt.Sprintf("frontend-%d", cs.idx))
		baseCtx = WithTracingContext(baseCtx, tc)
		if sp.ActorID > 0 && !want.IsSetTraceContext() {
			want.SetTraceContext(tc)
		}
	}
	r.mu.Lock()
	cs.wantReqExtra = want.WriteTL1(nil)
	cs.sentExtraFlags = want.Flags
	cs.hadDeadline = sp.DeadlineUs > 0 || sp.CustomTimeoutMs > 0 || defTO > 0
	cs.defaultTimeoutMs = defTO
	if sp.DeadlineUs > 0 {
		cs.sentExtraFlags |= 1 << 23
	}
	r.mu.Unlock()
	ctx, cancel := context.WithCancel(baseCtx)
	if sp.DeadlineUs > 0 {
		ctx, cancel = context.WithTimeout(baseCtx, time.Duration(sp.DeadlineUs)*time.Microsecond)
	}
	r.mu.Lock()
	cs.cancel = cancel
	cs.startedAt = r.sim.Now()
	r.mu.Unlock()
	srv := r.sc.Servers[sp.Server]
	if sp.CancelAt > 0 {
		k := sp.CancelAt
		vrt.Go(fmt.Sprintf("canceller%d", cs.idx), func() {
			for i := 0; i < k; i++ {
				vrt.Yield("harness.canceller")
			}
			r.mu.Lock()
			if cs.done {
				r.mu.Unlock()
				return
			}
			cs.cancelled = true
			ccSet, cc := cs.ccSet, cs.cc
			r.mu.Unlock()
			r.sim.Fired("call_cancelled_by_caller")
			if sp.Callback {
				if !ccSet {
					return // DoCallback has not returned yet: nothing to cancel with
				}
				if UnwrapOK(cl).CancelDoCallback(cc) {
					r.mu.Lock()
					if cs.completions > 0 {
						r.fail("C38/callback-after-cancel", fmt.Sprintf("call %d: CancelDoCallback reported success after the callback had run", cs.idx))
					}
					cs.cancelOK = true
					cs.done = true
					r.pendingCalls--
					r.progress()
					r.mu.Unlock()
					r.sim.Count("probe.callback_cancelled")
				}
				return
			}
			cancel()
		})
	}
	if sp.Callback {
		cc, err := cl.DoCallback(ctx, srv.Network, srv.Address, req, func(_ Client, resp *Response, err error) {
			r.complete(cs, resp, err)
			cl.PutResponse(resp)
		}, nil)
		if err != nil {
			r.complete(cs, nil, err)
			return
		}
		r.mu.Lock()
		cs.cc, cs.ccSet = cc, true
		r.mu.Unlock()
		return
	}
	r.sim.Notef("HARNESS call %d Do starts (client %d server %d failfast=%v)", cs.idx, sp.Client, sp.Server, sp.FailFast)
	resp, err := cl.Do(ctx, srv.Network, srv.Address, req)
	r.complete(cs, resp, err)
	cl.PutResponse(resp)
	cancel()
	r.startFollowers(cs)
}

// startFollowers runs, one after the other in this goroutine, the calls that follow cs.
func (r *callsRun) startFollowers(cs *callState) {
	for _, f := range r.calls {
		if f.spec.After != cs.idx+1 || f.idx <= cs.idx {
			continue
		}
		r.mu.Lock()
		if r.windingDown {
			if !f.done {
				f.done = true
				r.pendingCalls--
				r.sim.Count("probe.follow_up_call_skipped_at_wind_down")
			}
			r.mu.Unlock()
			continue
		}
		r.mu.Unlock()
		r.sim.Count("probe.follow_up_call_in_same_goroutine")
		r.doCall(f)
	}
}

// UnwrapOK returns the concrete client (the harness only creates ClientImpl).
func UnwrapOK(c Client) *ClientImpl {
	ci, _ := UnwrapClient(c)
	return ci
}

func (r *callsRun) applyFault(f faultSpec) {
	r.sim.Notef("HARNESS fault %+v", f)
	switch f.Kind {
	case "reset", "stall":
		conns := r.net.ConnsSnapshot()
		if len(conns) == 0 {
			return
		}
		c := conns[f.Target%len(conns)]
		r.mu.Lock()
		r.faultsFired++
		r.mu.Unlock()
		if f.Kind == "reset" {
			c.ResetNow()
		} else {
			c.StallOut(time.Duration(f.DurMs) * time.Millisecond)
		}
	case "server_shutdown":
		r.mu.Lock()
		r.faultsFired++
		r.mu.Unlock()
		r.sim.Fired("server_shutdown")
		r.servers[f.Target].Shutdown()
	case "server_close":
		r.closeServer(f.Target)
	case "client_close":
		r.closeClient(f.Target)
	}
	r.mu.Lock()
	r.progress()
	r.mu.Unlock()
}

func (r *callsRun) closeServer(i int) {
	r.mu.Lock()
	if r.srvClosed[i] {
		r.mu.Unlock()
		return
	}
	r.srvClosed[i] = true
	r.faultsFired++
	r.mu.Unlock()
	r.sim.Fired("server_close")
	_ = r.servers[i].Close()
	r.mu.Lock()
	r.progress()
	r.mu.Unlock()
}

func (r *callsRun) closeClient(i int) {
	r.mu.Lock()
	if r.cliClosed[i] {
		r.mu.Unlock()
		return
	}
	r.cliClosed[i] = true
	r.faultsFired++
	r.mu.Unlock()
	r.sim.Fired("client_close")
	_ = r.clients[i].Close()
	r.mu.Lock()
	r.progress()
	r.mu.Unlock()
}

func (r *callsRun) openGate(cs *callState) {
	r.mu.Lock()
	open := !cs.gateOpen
	cs.gateOpen = true
	r.mu.Unlock()
	if open {
		close(cs.gate)
	}
}

func (r *callsRun) pending() int {
	r.mu.Lock()
	defer r.mu.Unlock()
	return r.pendingCalls
}

func (r *callsRun) describePending() string {
	var s []string
	for _, cs := range r.calls {
		if !cs.done {
			s = append(s, fmt.Sprintf("call %d (client %d -> server %d, handler %s, handled=%d, started t=%v)", cs.idx, cs.spec.Client, cs.spec.Server, cs.spec.Handler, cs.handled, cs.startedAt))
		}
	}
	sort.Strings(s)
	return strings.Join(s, "; ")
}

func (r *callsRun) setPhase(p string) { r.mu.Lock(); r.phase = p; r.mu.Unlock() }

// body is the root of one run: set-up, calls, faults, waiting, wind-down. It runs as simulated
// goroutine g0 under the token scheduler, or as the bubble's root goroutine in the -race configuration.
func (r *callsRun) body(s simI) {
	sc := r.sc
	r.sim = s
	r.setPhase("setup")
	r.net = vrt.NewNet(vrt.NetConfig{MinLatency: 20 * time.Microsecond, Jitter: time.Duration(sc.JitterUs) * time.Microsecond, MaxSegment: sc.MaxSegment, MaxRead: sc.MaxRead,
		Capacity: sc.Capacity, DialRefusePct: sc.DialRefusePct}, s.Choose)
	vrt.DialFunc = r.net.Dial
	defer func() { vrt.DialFunc = nil }()
	nolog := func(format string, a ...any) {
		s.Notef("LOG "+format, a...)
		// An idle read deadline that expires while a packet is arriving (at least one byte of it read, the rest still on its
		// way through a slow, segmented stream; an expiry with nothing read only sends a ping and logs nothing) makes the reader drop the connection: documented behaviour of
		// the packet reader, caused by delivery timing, i.e. an environment fault of this run.
		if msg := fmt.Sprintf(format, a...); strings.Contains(msg, "i/o timeout") && !strings.Contains(msg, "timeout after ping sent") {
			r.midPacketTimeouts.Add(1)
			s.Fired("read_deadline_expired_inside_a_packet")
		}
	}
	r.mu.Lock()
	r.running = make([]int, len(sc.Servers))
	r.load = make([]int64, len(sc.Servers))
	r.maxRunning = make([]int, len(sc.Servers))
	r.srvClosed = make([]bool, len(sc.Servers))
	r.cliClosed = make([]bool, len(sc.Clients))
	r.lpStop = make(chan struct{}) // inside the bubble, like every channel a simulated goroutine blocks on
	for i, sp := range sc.Calls {
		cs := &callState{spec: sp, idx: i, token: 0xC0DE000000000000 | uint64(i)<<32 | (sc.CryptoSeed & 0xFFFFFFFF), gate: make(chan struct{})}
		r.calls = append(r.calls, cs)
		r.byToken[cs.token] = cs
	}
	r.pendingCalls = len(r.calls)
	r.mu.Unlock()
	var servers []*Server
	for si, sp := range sc.Servers {
		var more []ServerOptionsFunc
		if sp.DisableSpecial {
			more = append(more, ServerWithDisableSpecialHandlers())
		}
		opts := []ServerOptionsFunc{ServerWithLogf(nolog), ServerWithHandler(r.handler(si)), ServerWithSyncHandler(r.syncHandler(si)), ServerWithMaxWorkers(sp.MaxWorkers),
			ServerWithRequestBufSize(sp.ReqBuf), ServerWithRequestMemoryLimit(sp.ReqMemLimit), ServerWithConnReadBufSize(sp.RBuf), ServerWithConnWriteBufSize(sp.WBuf),
			ServerWithTrustedSubnetGroups([][]string{{"10.9.0.0/16"}})}
		if sp.WithKey {
			opts = append(opts, ServerWithCryptoKeys([]string{frKey}))
		}
		if sp.ForceEnc {
			opts = append(opts, ServerWithForceEncryption(true))
		}
		opts = append(opts, more...)
		srv := NewServer(opts...)
		servers = append(servers, srv)
		ln := r.net.Listen(sp.Network, sp.Address)
		done := make(chan struct{})
		r.srvDone = append(r.srvDone, done)
		vrt.Go(fmt.Sprintf("serve%d", si), func() {
			_ = srv.Serve(ln)
			close(done)
		})
	}
	var clients []Client
	for _, cp := range sc.Clients {
		opts := []ClientOptionsFunc{ClientWithLogf(nolog), ClientWithProtocolVersion(cp.Protocol), ClientWithConnReadBufSize(cp.RBuf), ClientWithConnWriteBufSize(cp.WBuf),
			ClientWithMaxReconnectDelay(time.Duration(cp.MaxReconnectMs) * time.Millisecond)}
		if cp.WithKey {
			opts = append(opts, ClientWithCryptoKey(frKey))
		}
		if cp.ForceEnc {
			opts = append(opts, ClientWithForceEncryption(true))
		}
		cl := NewClient(opts...)
		if cp.DefaultTimeoutMs > 0 {
			// the public option is commented out in the package "to prevent abuse"; the field and the exported
			// UpdateExtraTimeout it feeds are live code
			UnwrapOK(cl).opts.DefaultTimeout = time.Duration(cp.DefaultTimeoutMs) * time.Millisecond
		}
		clients = append(clients, cl)
	}
	r.mu.Lock()
	r.servers, r.clients = servers, clients
	r.progress()
	r.mu.Unlock()
	r.setPhase("calls")
	for _, cs := range r.calls {
		cs := cs
		if cs.spec.After == 0 || cs.spec.After > len(r.calls) || cs.spec.After-1 >= cs.idx {
			vrt.Go(fmt.Sprintf("call%d", cs.idx), func() { r.doCall(cs) })
		}
		if (cs.spec.Handler == "gate" || cs.spec.Handler == "longpoll") && cs.spec.GateUs > 0 {
			s.After(time.Duration(cs.spec.StartUs+cs.spec.GateUs)*time.Microsecond, func() { r.openGate(cs) })
		}
	}
	// faults are applied by one goroutine in time order (Close/Shutdown are program code)
	faults := append([]faultSpec{}, sc.Faults...)
	sort.SliceStable(faults, func(i, j int) bool { return faults[i].AtUs < faults[j].AtUs })
	faultsDone := make(chan struct{})
	vrt.Go("faults", func() {
		for _, f := range faults {
			if d := time.Duration(f.AtUs)*time.Microsecond - s.Now(); d > 0 {
				time.Sleep(d)
				vrt.Yield("harness.fault.wait")
			}
			r.applyFault(f)
		}
		close(faultsDone)
	})
	<-faultsDone
	vrt.Yield("harness.faults.done")
	// faults have stopped: from here on liveness is judged, which needs a fair schedule and a clock that
	// does not run away while goroutines are runnable
	s.Fair()
	r.mu.Lock()
	r.fairOn = true
	r.progress()
	r.mu.Unlock()
	wait := func(phase string, limit time.Duration, cond func() bool) bool {
		r.setPhase(phase)
		deadline := s.Now() + limit
		nap := 100 * time.Microsecond
		for !cond() && s.Now() < deadline && !s.Failed() {
			time.Sleep(nap)
			vrt.Yield("harness.wait")
			if nap < 500*time.Millisecond {
				nap *= 2
			}
		}
		return cond()
	}
	allDone := func() bool { return r.pending() == 0 }
	// "closing either side makes all pending calls return": a call that was pending on a client when that client's
	// Close returned needs no cancellation or deadline of its own to come back
	closedClientsDrained := func() bool {
		r.mu.Lock()
		defer r.mu.Unlock()
		for _, cs := range r.calls {
			if r.cliClosed[cs.spec.Client] && cs.cancel != nil && !cs.done {
				return false
			}
		}
		return true
	}
	if !wait("calls of closed clients", time.Minute, closedClientsDrained) && !s.Failed() {
		r.mu.Lock()
		for _, cs := range r.calls {
			if r.cliClosed[cs.spec.Client] && cs.cancel != nil && !cs.done {
				r.fail("C38/close-does-not-release-call", fmt.Sprintf("call %d (client %d -> server %d, handler %s, handled=%d) is still pending one simulated minute (fair schedule) after Close of its client returned", cs.idx, cs.spec.Client, cs.spec.Server, cs.spec.Handler, cs.handled))
				break
			}
		}
		r.mu.Unlock()
	}
	var lastStart int64
	for _, cs := range r.calls {
		lastStart = max(lastStart, cs.spec.StartUs)
	}
	if lastStart > 1_000_000 {
		s.Count("probe.second_burst_after_idle_period")
	}
	if !wait("waiting for calls", 2*time.Minute+time.Duration(lastStart)*time.Microsecond, allDone) {
		// whatever is still gated is released now
		r.setPhase("release gates")
		for _, cs := range r.calls {
			if cs.spec.Handler == "gate" || cs.spec.Handler == "longpoll" {
				r.openGate(cs)
			}
		}
		r.mu.Lock()
		r.progress()
		r.mu.Unlock()
		if !wait("after releasing gates", 10*time.Minute, allDone) && !s.Failed() {
			// Calls may legitimately wait: their server is closed/shut down (the client keeps reconnecting), or
			// dial refusals keep the connection down. They must return once their context is cancelled.
			type toCancel struct {
				cs *callState
				cc CallbackContext
				cb bool
			}
			var cancels []toCancel
			r.mu.Lock()
			r.windingDown = true
			for _, cs := range r.calls {
				if cs.done {
					continue
				}
				if cs.cancel == nil { // a follow-up call whose predecessor has not returned: it never started
					cs.done = true
					r.pendingCalls--
					continue
				}
				srvGone := r.srvClosed[cs.spec.Server]
				for _, f := range sc.Faults {
					if f.Kind == "server_shutdown" && f.Target == cs.spec.Server {
						srvGone = true
					}
				}
				if !srvGone && sc.DialRefusePct == 0 && !r.cliClosed[cs.spec.Client] {
					r.fail("C38/stuck-call", fmt.Sprintf("call %d (client %d -> server %d, handler %s, handled=%d) did not complete within 12 simulated minutes after the last fault although its server is serving and every gate is open", cs.idx, cs.spec.Client, cs.spec.Server, cs.spec.Handler, cs.handled))
				}
				cs.cancelled = true
				cancels = append(cancels, toCancel{cs, cs.cc, cs.spec.Callback && cs.ccSet})
			}
			r.progress()
			r.mu.Unlock()
			for _, c := range cancels {
				s.Count("probe.call_cancelled_at_end_of_run")
				if c.cb {
					if UnwrapOK(clients[c.cs.spec.Client]).CancelDoCallback(c.cc) {
						r.mu.Lock()
						if !c.cs.done {
							c.cs.cancelOK, c.cs.done = true, true
							r.pendingCalls--
						}
						r.mu.Unlock()
					}
				}
				c.cs.cancel()
			}
			pendingSync := func() bool {
				r.mu.Lock()
				defer r.mu.Unlock()
				for _, cs := range r.calls {
					if !cs.done && !cs.spec.Callback {
						return false
					}
				}
				return true
			}
			if !wait("after cancelling the remaining calls", 5*time.Minute, pendingSync) && !s.Failed() {
				r.mu.Lock()
				d := r.describePending()
				r.mu.Unlock()
				r.fail("C38/call-never-returns", "after cancelling their contexts these calls still have not returned: "+d)
			}
		}
	}
	// closing either side makes all pending calls return; then everything must wind down
	close(r.lpStop)
	r.mu.Lock()
	r.windingDown = true
	r.mu.Unlock()
	r.setPhase("closing clients")
	for i := range clients {
		r.closeClient(i)
	}
	r.setPhase("closing servers")
	for i := range servers {
		r.closeServer(i)
	}
	r.setPhase("waiting for Serve to return")
	for _, d := range r.srvDone {
		<-d
		vrt.Yield("harness.serve.done")
	}
	r.setPhase("waiting for goroutines to exit")
	r.mu.Lock()
	r.progress()
	r.mu.Unlock()
}

const callsStuckAfter = 30 * time.Minute // simulated time without any harness-visible progress

func (r *callsRun) summary(out *vrt.RunOut, stats map[string]int) {
	r.mu.Lock()
	defer r.mu.Unlock()
	if out.Probes == nil {
		out.Probes = map[string]int{}
	}
	for si := range r.maxRunning {
		if r.maxRunning[si] > 1 {
			out.Probes["probe.concurrent_handlers_seen"]++
		}
	}
	completed := 0
	for _, cs := range r.calls {
		if cs.completions > 0 {
			completed++
		}
	}
	out.Progress = completed > 0
	sc := r.sc
	out.Sample = map[string]any{"servers": len(sc.Servers), "clients": len(sc.Clients), "calls": len(sc.Calls), "faults": sc.Faults, "completed": completed,
		"first_call": sc.Calls[0], "net": map[string]int{"max_segment": sc.MaxSegment, "max_read": sc.MaxRead, "capacity": sc.Capacity}}
}

func callsExec(t *testing.T, sc callsScenario, tape *vrt.Tape, keepLog bool) (out vrt.RunOut) {
	for i := range sc.Calls { // special request tags only towards servers that hand them to the user handler
		if c := &sc.Calls[i]; c.Server >= len(sc.Servers) || !sc.Servers[c.Server].DisableSpecial {
			c.TagKind = 0
		}
	}
	cryptotest.SetGlobalRandom(t, sc.CryptoSeed)
	r := &callsRun{sc: sc, byToken: map[uint64]*callState{}}
	if sc.Race {
		return callsExecRace(t, r)
	}
	cfg := vrt.Config{Strategy: sc.Strategy, TimeAdvPct: sc.TimeAdvPct, PCTChanges: 3, PCTSpan: 3000, MaxSteps: 3000000, Horizon: 2 * time.Hour, KeepLog: keepLog,
		PoolPolicy: sc.PoolPolicy, MapPolicy: sc.MapPolicy, CondRandom: sc.CondRandom, MaxAdvanceExp: sc.MaxAdvanceExp, YieldAfterUnlock: sc.YieldUnlock, HoldPermille: sc.HoldPermille}
	cfg.OnStep = func(s *vrt.Sim) {
		r.mu.Lock()
		defer r.mu.Unlock()
		if r.sim == nil {
			return
		}
		for si := range r.servers {
			r.checkReqMem(si, "quiescent point")
		}
		if !r.fairOn && s.Steps() > 1_000_000 {
			// The fault plan should have been over long ago (no run of the unchanged tree needs a third of this):
			// some Close/Shutdown of the plan has not returned. Judge it like the wind-down: fair schedule, bounded
			// clock, and the no-progress watchdog below.
			s.Fair()
			r.fairOn = true
			r.lastProgress = s.Now()
			s.Count("probe.fault_phase_overran_switched_to_fair_schedule")
		}
		if r.fairOn && s.Now()-r.lastProgress > callsStuckAfter {
			r.fail("C38/stuck", fmt.Sprintf("no progress for %v of simulated time in phase %q; pending: %s; goroutines:%s", callsStuckAfter, r.phase, r.describePending(), s.Describe()))
		}
	}
	cfg.OnIdle = func(s *vrt.Sim) bool {
		r.mu.Lock()
		defer r.mu.Unlock()
		r.fail("C38/stuck", fmt.Sprintf("system idle in phase %q; pending: %s; goroutines:%s", r.phase, r.describePending(), s.Describe()))
		return false
	}
	res := vrt.Run(t, cfg, tape, func(s *vrt.Sim) { r.body(tokenSim{s}) })
	out.Result = res
	for i := range out.Violations {
		if out.Violations[i].Class == "panic" && sc.Focus != "" {
			out.Violations[i].Class = sc.Focus + "/panic" // the client or server panicked while this property's workload ran
		}
	}
	r.summary(&out, nil)
	out.Nontrivial = res.Stats["sched.contended_steps"] > 0
	if len(out.Violations) == 0 && res.Outcome != "done" {
		out.Violations = append(out.Violations, vrt.Violation{Class: "machinery", Msg: "run ended with outcome " + res.Outcome + " in phase " + r.phase})
	}
	return out
}

// callsExecRace: the same scenario, harness and oracles on the package as shipped (only the dial
// and PRNG seams are rewritten), built with -race; goroutines are scheduled by the Go runtime at
// GOMAXPROCS 16 inside the bubble. A race report terminates the worker with exit code 66, which the
// driver turns into a violation; the scenario stream replays exactly, the interleaving only statistically.
func callsExecRace(t *testing.T, r *callsRun) (out vrt.RunOut) {
	out.NoDetCheck = true
	out.Outcome = "done"
	ps := &plainSim{rng: rand.New(rand.NewPCG(r.sc.CryptoSeed, 38)), stats: map[string]int{}}
	func() {
		defer func() {
			if p := recover(); p != nil {
				buf := make([]byte, 1<<20)
				buf = buf[:runtime.Stack(buf, true)]
				var where []string
				for _, blk := range strings.Split(string(buf), "\n\n") {
					if strings.Contains(blk, "synctest bubble") && !strings.Contains(blk, "[running") {
						ls := strings.Split(blk, "\n")
						w := ls[0]
						for _, l := range ls[1:] {
							if strings.Contains(l, "pkg/rpc.") || strings.Contains(l, "semaphore.") {
								w += " <- " + strings.TrimSpace(l)
								if strings.Count(w, "<-") >= 3 {
									break
								}
							}
						}
						where = append(where, w)
					}
				}
				ps.Fail("C38/goroutine-leak-or-deadlock", fmt.Sprintf("after both sides were closed the bubble did not wind down: %v; goroutines still in the bubble: %s", p, strings.Join(where, " | ")))
			}
		}()
		synctest.Test(t, func(t *testing.T) {
			ps.start = time.Now()
			stop := make(chan struct{})
			go func() { // monitor: the quiescent-point checks of the token scheduler, on a timer instead
				for {
					select {
					case <-stop:
						return
					case <-time.After(2 * time.Millisecond):
					}
					r.mu.Lock()
					if r.sim != nil {
						for si := range r.servers {
							r.checkReqMem(si, "monitor tick")
						}
						if r.fairOn && ps.Now()-r.lastProgress > callsStuckAfter {
							r.fail("C38/stuck", fmt.Sprintf("no progress for %v of simulated time in phase %q; pending: %s", callsStuckAfter, r.phase, r.describePending()))
						}
					}
					r.mu.Unlock()
				}
			}()
			r.body(ps)
			time.Sleep(time.Second) // the bubble's clock stops when its root returns: let sleeping helper goroutines (cancel-on-reply) finish first
			close(stop)
		})
	}()
	r.summary(&out, nil)
	ps.mu.Lock()
	out.Violations = ps.viol
	if len(out.Violations) > 0 {
		out.Violations[0].Msg += "\nprogram log:\n  " + strings.Join(ps.notes, "\n  ")
	}
	out.Stats = ps.stats
	ps.mu.Unlock()
	if len(out.Violations) > 0 {
		out.Outcome = "violation"
	}
	out.Nontrivial = true
	out.Sig = vrt.HashJSON(r.sc)
	out.LogHash = out.Sig
	return out
}
