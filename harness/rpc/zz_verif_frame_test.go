package rpc

// Engine `rpc`, property C35 (DESIGN.md §3.3): packet stream framing over a simulated byte stream.
// Two real PacketConns (pkg/rpc source-rewritten by /verif/sim/instrument) joined by a simnet pair;
// handshake, then one writer and one reader goroutine per direction under the token scheduler.

import (
	"strings"
	"bytes"
	"encoding/json"
	"fmt"
	"io"
	"math/rand/v2"
	"net"
	"testing"
	"testing/cryptotest"
	"time"

	"github.com/VKCOM/tl/internal/zzverif/vrt"
	"github.com/VKCOM/tl/pkg/rpc/internal/gen/tl"
)

type frPacket struct {
	Type   uint32 `json:"t"`
	Len    int    `json:"n"`
	Mode   int    `json:"m"`           // 0 WritePacket, 1 WritePacket2, 2 NoFlush (flushed later), 3 header/body.../trailer
	Splits []int  `json:"s,omitempty"` // body split points for modes 1 and 3
	Huge   bool   `json:"h,omitempty"` // a body at the upper end of what a packet can carry: the writer may refuse it (then nothing of it may be sent and the connection stays usable) or it must round-trip
	PauseUs int   `json:"p,omitempty"` // ping mode: the writer flushes and stays silent for this long before the packet
}

type frScenario struct {
	Kind       string     `json:"kind"` // "frame"
	Encrypt    string     `json:"encrypt"` // none | aes-forced | aes-untrusted | none-trusted
	Protocol   uint32     `json:"protocol"`
	Bufs       [4]int     `json:"bufs"` // read/write buffer sizes of a and b
	AB         []frPacket `json:"ab"`
	BAp        []frPacket `json:"ba"`
	MaxSegment int        `json:"max_segment"`
	MaxRead    int        `json:"max_read"`
	JitterUs   int        `json:"jitter_us"`
	Fault      string     `json:"fault"` // "" | corrupt | reset
	FaultDir   int        `json:"fault_dir"` // 0: a->b, 1: b->a
	FaultSel   int        `json:"fault_sel"` // position selector within the post-handshake stream
	FaultMask  byte       `json:"fault_mask"`
	Enumerate  bool       `json:"enumerate"` // thorough tier: every offset after the handshake x masks 0x01,0x80,0xFF
	Strategy   int        `json:"strategy"`
	TimeAdvPct int        `json:"time_adv_pct"`
	CryptoSeed uint64     `json:"crypto_seed"`
	ContentKey uint64     `json:"content_key"`
	YieldUnlock bool      `json:"yield_unlock,omitempty"` // unlocks are scheduling points as well
	// ping mode: readers use a read timeout, so that a silent peer is pinged (the reader goroutine writes the ping,
	// the peer's reader goroutine writes the pong, both concurrently with the writer goroutines of their ends)
	PingMode      bool   `json:"ping_mode,omitempty"`
	ReadTimeoutUs [2]int `json:"read_timeout_us,omitempty"`
	Capacity      int    `json:"capacity,omitempty"`     // bytes a direction holds before the writer blocks (0: practically unlimited)
	ReaderPauseAt [2]int `json:"reader_pause_at,omitempty"` // ping mode: reader d sleeps once, before reading packet number ReaderPauseAt[d]-1 (0: never)
	ReaderPauseUs [2]int `json:"reader_pause_us,omitempty"`
}

const frKey = "verif-simulation-crypto-key-0123456789abcdef"

func frBody(key uint64, dir, idx, n int) []byte {
	b := make([]byte, n)
	x := key ^ uint64(dir+1)*0x9E3779B97F4A7C15 ^ uint64(idx+1)*0xBF58476D1CE4E5B9
	for i := range b {
		x ^= x << 13
		x ^= x >> 7
		x ^= x << 17
		b[i] = byte(x >> 24)
	}
	return b
}

func frGenPackets(r *rand.Rand, protocol uint32) []frPacket {
	n := 1 + r.IntN(30)
	if r.IntN(3) == 0 {
		n = 1 + r.IntN(4)
	}
	var ps []frPacket
	for i := 0; i < n; i++ {
		l := r.IntN(3001)
		switch r.IntN(4) {
		case 0:
			l = r.IntN(40)
		case 1:
			l = r.IntN(300)
		}
		if protocol == 0 {
			l &^= 3 // protocol 0 requires a multiple of 4
		}
		p := frPacket{Type: r.Uint32(), Len: l, Mode: r.IntN(4)}
		if p.Mode == 1 || p.Mode == 3 {
			k := 1
			if p.Mode == 3 {
				k = r.IntN(4)
			}
			for j := 0; j < k; j++ {
				p.Splits = append(p.Splits, r.IntN(l+1))
			}
		}
		ps = append(ps, p)
	}
	return ps
}

func frGen(r *rand.Rand, params map[string]any) frScenario {
	sc := frScenario{Kind: "frame"}
	sc.Encrypt = []string{"none", "aes-forced", "aes-untrusted", "none-trusted"}[r.IntN(4)]
	sc.Protocol = uint32(r.IntN(3))
	for i := range sc.Bufs {
		switch r.IntN(3) {
		case 0:
			sc.Bufs[i] = 1 + r.IntN(32)
		case 1:
			sc.Bufs[i] = 1 + r.IntN(512)
		default:
			sc.Bufs[i] = 1 + r.IntN(4096)
		}
	}
	sc.AB = frGenPackets(r, sc.Protocol)
	sc.BAp = frGenPackets(r, sc.Protocol)
	sc.MaxSegment = []int{0, 1, 3, 16, 100, 1500}[r.IntN(6)]
	sc.MaxRead = []int{0, 1, 2, 7, 64, 1000}[r.IntN(6)]
	sc.JitterUs = []int{0, 10, 1000}[r.IntN(3)]
	sc.Strategy = r.IntN(vrt.NumStrategies)
	sc.TimeAdvPct = []int{0, 0, 5, 20}[r.IntN(4)]
	sc.CryptoSeed = r.Uint64()
	sc.ContentKey = r.Uint64()
	sc.YieldUnlock = r.IntN(2) == 0
	switch params["faults"] {
	case "none":
		if params["enumerate"] != true && r.IntN(40) == 0 {
			// bodies around the largest packet (maxPacketLen is used to aim the generator, not by the oracle)
			sc.MaxSegment, sc.MaxRead = 0, 0
			for i := range sc.Bufs {
				sc.Bufs[i] = 4096 + r.IntN(60000)
			}
			mk := func() frPacket {
				l := maxPacketLen - r.IntN(40)
				if sc.Protocol == 0 || r.IntN(2) == 0 {
					l &^= 3
				}
				p := frPacket{Type: r.Uint32(), Len: l, Mode: r.IntN(4), Huge: true}
				if p.Mode == 1 || p.Mode == 3 {
					p.Splits = []int{r.IntN(l + 1)}
				}
				return p
			}
			small := func() frPacket { return frPacket{Type: r.Uint32(), Len: 4 * r.IntN(50), Mode: r.IntN(3)} }
			sc.AB = []frPacket{small(), mk(), small()}
			sc.BAp = []frPacket{small()}
			if r.IntN(2) == 0 {
				sc.BAp = []frPacket{mk(), small()}
			}
		} else if params["enumerate"] != true && r.IntN(4) == 0 {
			// the clock moves only when every goroutine is blocked, so a pong is at most two latencies away and a
			// second timeout before it (a legitimately dead peer) cannot happen
			sc.PingMode, sc.TimeAdvPct = true, 0
			// Timeouts are far above the connection's 100 ms deadline accuracy and above the time a whole stream
			// needs through the smallest window; a reader sleeps at most once, for at most a quarter of the timeout
			// of the reader that waits for its pongs: a ping is always answered in time by a live peer.
			for d := 0; d < 2; d++ {
				sc.ReadTimeoutUs[d] = 2_000_000 + r.IntN(4_000_000)
			}
			sc.Capacity = []int{0, 256, 1024, 4096}[r.IntN(4)]
			if r.IntN(2) == 0 {
				for d, ps := range [2][]frPacket{sc.AB, sc.BAp} {
					for i := range ps {
						if r.IntN(3) == 0 {
							ps[i].PauseUs = sc.ReadTimeoutUs[d]/2 + r.IntN(3*sc.ReadTimeoutUs[d])
						}
					}
					if r.IntN(2) == 0 {
						sc.ReaderPauseAt[d] = 1 + r.IntN(len(ps))
						sc.ReaderPauseUs[d] = 100_000 + r.IntN(sc.ReadTimeoutUs[1-d]/4-100_000)
					}
				}
			} else {
				// directed: end a's reader times out (b is silent) exactly while end a's writer is blocked in the
				// middle of a large packet, because end b's reader sleeps and the window is full
				sc.Capacity = []int{256, 1024}[r.IntN(2)]
				sc.Bufs[1] = 1 + r.IntN(512)
				t := sc.ReadTimeoutUs[1]
				nap := 200_000 + r.IntN(t/4-200_000)
				sc.BAp = []frPacket{{Type: r.Uint32(), Len: 4 * r.IntN(10), Mode: 0}, {Type: r.Uint32(), Len: 4 * r.IntN(100), Mode: r.IntN(4), PauseUs: 2*t + r.IntN(t)}}
				big := frPacket{Type: r.Uint32(), Len: 4 * (500 + r.IntN(250)), Mode: r.IntN(4)}
				if big.Mode == 1 || big.Mode == 3 {
					big.Splits = []int{r.IntN(big.Len + 1)}
				}
				sc.AB = []frPacket{{Type: r.Uint32(), Len: 4 * r.IntN(10), Mode: 0}, {Type: r.Uint32(), Len: 4 * r.IntN(10), Mode: 0, PauseUs: t - r.IntN(nap)}, big}
				sc.ReaderPauseAt[0], sc.ReaderPauseUs[0] = 3, nap
			}
		}
	default:
		if r.IntN(5) == 0 {
			sc.Fault = "reset"
		} else {
			sc.Fault = "corrupt"
		}
		sc.FaultDir = r.IntN(2)
		sc.FaultSel = r.IntN(1 << 30)
		sc.FaultMask = []byte{0x01, 0x80, 0xFF, byte(1 << r.IntN(8)), byte(1 + r.IntN(255))}[r.IntN(5)]
	}
	if params["enumerate"] == true {
		sc.Enumerate = true
		sc.Fault = "corrupt"
		// keep streams small so that the single-fault space can be enumerated
		if len(sc.AB) > 5 {
			sc.AB = sc.AB[:5]
		}
		if len(sc.BAp) > 3 {
			sc.BAp = sc.BAp[:3]
		}
		for i := range sc.AB {
			sc.AB[i].Len %= 400
			if sc.Protocol == 0 {
				sc.AB[i].Len &^= 3
			}
			for j := range sc.AB[i].Splits {
				sc.AB[i].Splits[j] %= sc.AB[i].Len + 1
			}
		}
		for i := range sc.BAp {
			sc.BAp[i].Len %= 400
			if sc.Protocol == 0 {
				sc.BAp[i].Len &^= 3
			}
			for j := range sc.BAp[i].Splits {
				sc.BAp[i].Splits[j] %= sc.BAp[i].Len + 1
			}
		}
	}
	return sc
}

type frRead struct {
	tip  uint32
	body []byte
}

type frDirResult struct {
	written  []frRead
	read     []frRead
	readErr  error
	writeErr error
	hsBytes  int64
	total    int64
}

type frOutcome struct {
	dirs  [2]frDirResult
	hsErr [2]error
	res   vrt.Result
	hsElapsed time.Duration
	pingMode  bool
	pings     int64
}

func frFixType(t uint32) uint32 {
	for t == packetTypeRPCNonce || t == packetTypeRPCHandshake || t == (tl.RpcPing{}).TLTag() || t == (tl.RpcPong{}).TLTag() {
		t ^= 1
	}
	return t
}

func frWrite(pc *PacketConn, p frPacket, body []byte) error {
	tip := frFixType(p.Type)
	switch p.Mode {
	case 0:
		return pc.WritePacket(tip, body, 0)
	case 1:
		k := 0
		if len(p.Splits) > 0 {
			k = p.Splits[0] % (len(body) + 1)
		}
		return pc.WritePacket2(tip, body[:k], body[k:], 0)
	case 2:
		return pc.WritePacketNoFlush(tip, body, 0)
	default:
		vrt.Lock(&pc.writeMu, "harness.writeMu")
		defer vrt.Unlock(&pc.writeMu)
		if err := pc.WritePacketHeaderUnlocked(tip, len(body), 0); err != nil {
			return err
		}
		prev := 0
		cuts := append([]int{}, p.Splits...)
		for i := range cuts {
			cuts[i] %= len(body) + 1
		}
		for i := 0; i < len(cuts); i++ {
			for j := i + 1; j < len(cuts); j++ {
				if cuts[j] < cuts[i] {
					cuts[i], cuts[j] = cuts[j], cuts[i]
				}
			}
		}
		for _, c := range cuts {
			if c < prev {
				continue
			}
			if err := pc.WritePacketBodyUnlocked(body[prev:c]); err != nil {
				return err
			}
			prev = c
		}
		if err := pc.WritePacketBodyUnlocked(body[prev:]); err != nil {
			return err
		}
		pc.WritePacketTrailerUnlocked()
		if p.Len%2 == 0 {
			return pc.FlushUnlocked()
		}
		return nil
	}
}

// frRun executes the scenario once with one optional fault at an absolute stream offset.
func frRun(t *testing.T, sc frScenario, tape *vrt.Tape, keepLog bool, fault string, faultDir int, faultOff int64, mask byte) frOutcome {
	var out frOutcome
	cryptotest.SetGlobalRandom(t, sc.CryptoSeed)
	cfg := vrt.Config{Strategy: sc.Strategy, TimeAdvPct: sc.TimeAdvPct, PCTChanges: 2, PCTSpan: 400, MaxSteps: 400000, Horizon: time.Hour, KeepLog: keepLog, YieldAfterUnlock: sc.YieldUnlock}
	hsOver := false
	cfg.OnIdle = func(s *vrt.Sim) bool {
		if fault == "" && hsOver {
			// no fault, every goroutine blocked for ever: written bytes never reached a reader
			s.Fail("C35/stuck", "fault-free framing run is stuck after the handshake:"+s.Describe())
			return false
		}
		s.Fail("machinery", "framing run is stuck:"+s.Describe())
		return false
	}
	out.pingMode = sc.PingMode
	out.res = vrt.Run(t, cfg, tape, func(s *vrt.Sim) {
		nw := vrt.NewNet(vrt.NetConfig{MinLatency: 10 * time.Microsecond, Jitter: time.Duration(sc.JitterUs) * time.Microsecond, MaxSegment: sc.MaxSegment, MaxRead: sc.MaxRead, Capacity: sc.Capacity}, s.Tape.Next)
		var aAddr, bAddr net.Addr
		var trusted [][]*net.IPNet
		force := false
		keyC, keysS := frKey, []string{frKey}
		switch sc.Encrypt {
		case "none":
			aAddr, bAddr = &net.TCPAddr{IP: net.IPv4(127, 0, 0, 1), Port: 40001}, &net.TCPAddr{IP: net.IPv4(127, 0, 0, 1), Port: 8080}
			if sc.ContentKey%2 == 0 {
				keyC, keysS = "", nil
			}
		case "aes-forced":
			aAddr, bAddr = &net.TCPAddr{IP: net.IPv4(127, 0, 0, 1), Port: 40001}, &net.TCPAddr{IP: net.IPv4(127, 0, 0, 1), Port: 8080}
			force = true
		case "aes-untrusted":
			aAddr, bAddr = &net.TCPAddr{IP: net.IPv4(10, 1, 0, 5), Port: 40001}, &net.TCPAddr{IP: net.IPv4(10, 2, 0, 9), Port: 8080}
		default: // none-trusted
			aAddr, bAddr = &net.TCPAddr{IP: net.IPv4(10, 1, 0, 5), Port: 40001}, &net.TCPAddr{IP: net.IPv4(10, 1, 0, 9), Port: 8080}
			trusted, _ = ParseTrustedSubnets([][]string{{"10.1.0.0/16"}})
		}
		ca, cb := nw.Pair(aAddr, bAddr)
		pa := NewPacketConn(ca, sc.Bufs[0], sc.Bufs[1])
		pb := NewPacketConn(cb, sc.Bufs[2], sc.Bufs[3])
		hsDone := make(chan struct{}, 2)
		hsStart := s.Now()
		vrt.Go("hs-client", func() {
			out.hsErr[0] = pa.HandshakeClient(keyC, trusted, force, 1000, 0, 0, sc.Protocol)
			if out.hsErr[0] != nil {
				_ = pa.Close() // as every user of a failed handshake does; unblocks the peer
			}
			hsDone <- struct{}{}
			vrt.Yield("hs-client-done")
		})
		vrt.Go("hs-server", func() {
			_, _, out.hsErr[1] = pb.HandshakeServer(keysS, trusted, force, 2000, 0)
			if out.hsErr[1] != nil {
				_ = pb.Close()
			}
			hsDone <- struct{}{}
			vrt.Yield("hs-server-done")
		})
		<-hsDone
		vrt.Yield("hs-wait")
		<-hsDone
		vrt.Yield("hs-wait")
		out.hsElapsed = s.Now() - hsStart
		hsOver = true
		if out.hsErr[0] != nil || out.hsErr[1] != nil {
			return
		}
		wantEnc := sc.Encrypt == "aes-forced" || sc.Encrypt == "aes-untrusted"
		if pa.Encrypted() != wantEnc || pb.Encrypted() != wantEnc {
			s.Fail("machinery", fmt.Sprintf("handshake negotiated encrypted=%v/%v, scenario wants %v", pa.Encrypted(), pb.Encrypted(), wantEnc))
			return
		}
		if wantEnc {
			s.Count("probe.frame_run_encrypted")
		} else {
			s.Count("probe.frame_run_plain")
		}
		out.dirs[0].hsBytes = ca.OutWritten()
		out.dirs[1].hsBytes = cb.OutWritten()
		conns := [2]*vrt.Conn{ca, cb}
		pcs := [2]*PacketConn{pa, pb}
		if fault == "corrupt" {
			conns[faultDir].CorruptOutAt(faultOff, mask)
		} else if fault == "reset" {
			conns[faultDir].ResetOutAt(faultOff)
		}
		packets := [2][]frPacket{sc.AB, sc.BAp}
		fin := make(chan struct{}, 4)
		for d := 0; d < 2; d++ {
			d := d
			vrt.Go(fmt.Sprintf("writer%d", d), func() {
				defer func() { fin <- struct{}{}; vrt.Yield("writer-done") }()
				for i, p := range packets[d] {
					if sc.PingMode && p.PauseUs > 0 {
						// going idle: flush first (a peer that stalls in the middle of a packet is legitimately timed out)
						if err := pcs[d].Flush(); err != nil {
							out.dirs[d].writeErr = err
							break
						}
						time.Sleep(time.Duration(p.PauseUs) * time.Microsecond)
						vrt.Yield("writer-pause")
					}
					body := frBody(sc.ContentKey, d, i, p.Len)
					out.dirs[d].written = append(out.dirs[d].written, frRead{frFixType(p.Type), body})
					if err := frWrite(pcs[d], p, body); err != nil {
						out.dirs[d].written = out.dirs[d].written[:len(out.dirs[d].written)-1]
						if p.Huge {
							// refused as too large: allowed, but then the connection must go on working - the following
							// packets are written and judged as usual
							s.Count("probe.frame_huge_packet_refused_by_writer")
							if p.Mode == 3 {
								break // the header/body/trailer path may have sent a part: the stream is legitimately over
							}
							continue
						}
						out.dirs[d].writeErr = err
						break
					}
					if p.Huge {
						s.Count("probe.frame_huge_packet_accepted_by_writer")
					}
				}
				if sc.PingMode {
					// the write side stays open (pongs and pings still have to go out); the run is closed by the root
					if err := pcs[d].Flush(); err != nil && out.dirs[d].writeErr == nil {
						out.dirs[d].writeErr = err
					}
					return
				}
				// also after a write error: the peer's reader must come to an end
				if err := pcs[d].ShutdownWrite(); err != nil && out.dirs[d].writeErr == nil {
					out.dirs[d].writeErr = err
				}
			})
			vrt.Go(fmt.Sprintf("reader%d", d), func() {
				defer func() { fin <- struct{}{}; vrt.Yield("reader-done") }()
				rd := pcs[1-d] // reads what direction d wrote
				var timeout time.Duration
				if sc.PingMode {
					timeout = time.Duration(sc.ReadTimeoutUs[d]) * time.Microsecond
				}
				for {
					if sc.PingMode && sc.ReaderPauseAt[d] == len(out.dirs[d].read)+1 {
						time.Sleep(time.Duration(sc.ReaderPauseUs[d]) * time.Microsecond)
						vrt.Yield("reader-pause")
					}
					tip, body, err := rd.ReadPacket(nil, timeout)
					if err != nil {
						out.dirs[d].readErr = err
						return
					}
					out.dirs[d].read = append(out.dirs[d].read, frRead{tip, append([]byte{}, body...)})
				}
			})
		}
		if sc.PingMode {
			for i := 0; i < 2; i++ { // both writers (readers cannot end before the close below, except by an error)
				<-fin
				vrt.Yield("main-wait")
			}
			complete := func() bool {
				for d := 0; d < 2; d++ {
					if out.dirs[d].readErr == nil && len(out.dirs[d].read) < len(out.dirs[d].written) {
						return false
					}
				}
				return true
			}
			for limit := s.Now() + time.Minute; !complete() && s.Now() < limit; {
				time.Sleep(time.Millisecond)
				vrt.Yield("main-wait-readers")
			}
			out.pings = pa.currentPingID + pb.currentPingID
			out.dirs[0].total = ca.OutWritten()
			out.dirs[1].total = cb.OutWritten()
			_ = pa.Close()
			_ = pb.Close()
			for i := 0; i < 2; i++ {
				<-fin
				vrt.Yield("main-wait")
			}
			return
		}
		for i := 0; i < 4; i++ {
			<-fin
			vrt.Yield("main-wait")
		}
		out.dirs[0].total = ca.OutWritten()
		out.dirs[1].total = cb.OutWritten()
		_ = pa.Close()
		_ = pb.Close()
	})
	return out
}

// frJudge applies the C35 oracle to one run. faultDir < 0: fault-free.
func frJudge(o frOutcome, fault string, faultDir int) (class, msg string) {
	if len(o.res.Violations) > 0 {
		if c := o.res.Violations[0].Class; c == "panic" {
			return "C35/panic", o.res.Violations[0].Msg // the connection code panicked while packets were in flight
		}
		return o.res.Violations[0].Class, o.res.Violations[0].Msg
	}
	if o.res.Outcome != "done" {
		return "machinery", "run ended with outcome " + o.res.Outcome
	}
	if (o.hsErr[0] != nil || o.hsErr[1] != nil) && o.hsElapsed > cryptoMaxTimeDelta && strings.Contains(fmt.Sprint(o.hsErr[0], o.hsErr[1]), "time delta") {
		// the documented clock check of the handshake: the processes were stalled for more than the accepted
		// client-server time difference between writing and reading the nonce. An environment fault, not a defect.
		return "skip", "handshake rejected for clock difference after a stall of " + o.hsElapsed.String()
	}
	if o.hsErr[0] != nil || o.hsErr[1] != nil {
		return "C35/handshake-failed", fmt.Sprintf("fault-free handshake failed: client %v, server %v", o.hsErr[0], o.hsErr[1])
	}
	for d := 0; d < 2; d++ {
		r := o.dirs[d]
		// prefix property: never an altered packet
		for i, got := range r.read {
			if i >= len(r.written) {
				return "C35/altered-packet", fmt.Sprintf("direction %d: reader returned %d packets, only %d were written", d, len(r.read), len(r.written))
			}
			w := r.written[i]
			if got.tip != w.tip || !bytes.Equal(got.body, w.body) {
				return "C35/altered-packet", fmt.Sprintf("direction %d packet %d: reader returned type %#x len %d, writer wrote type %#x len %d (bodies equal: %v)", d, i, got.tip, len(got.body), w.tip, len(w.body), bytes.Equal(got.body, w.body))
			}
		}
		faulted := fault != "" && faultDir == d
		if !faulted {
			if fault == "reset" {
				continue // a reset kills both directions; only the prefix property applies
			}
			if r.writeErr != nil {
				return "C35/write-error", fmt.Sprintf("direction %d: writer failed without a fault on its stream: %v", d, r.writeErr)
			}
			if o.pingMode {
				// the run was ended by closing both connections once everything was read (or a minute had passed)
				if len(r.read) != len(r.written) {
					return "C35/lost-packet", fmt.Sprintf("direction %d (no fault, read timeouts with ping/pong): %d of %d packets read, reader ended with %v", d, len(r.read), len(r.written), r.readErr)
				}
				continue
			}
			if len(r.read) != len(r.written) || r.readErr != io.EOF {
				return "C35/lost-packet", fmt.Sprintf("direction %d (no fault on this stream): %d of %d packets read, final error %v (want all, then io.EOF)", d, len(r.read), len(r.written), r.readErr)
			}
			continue
		}
		if r.readErr == nil || r.readErr == io.EOF {
			return "C35/corruption-undetected", fmt.Sprintf("direction %d: a %s fault hit the stream after the handshake, but the reader returned %d/%d packets and ended with %v instead of an error", d, fault, len(r.read), len(r.written), r.readErr)
		}
	}
	return "", ""
}

func frExec(t *testing.T, sc frScenario, tape *vrt.Tape, keepLog bool) (out vrt.RunOut) {
	probes := map[string]int{}
	// phase 1: fault-free (also measures the stream)
	base := frRun(t, sc, tape, keepLog && sc.Fault == "", "", -1, 0, 0)
	out.Result = base.res
	out.Probes = probes
	fail := func(class, msg string, r vrt.Result) vrt.RunOut {
		out.Result = r
		out.Violations = []vrt.Violation{{Class: class, Msg: msg, Step: r.Steps}}
		out.Outcome = "violation"
		return out
	}
	if class, msg := frJudge(base, "", -1); class == "skip" {
		probes["probe.frame_handshake_rejected_clock_delta"]++
		out.Sample = map[string]any{"skipped": msg}
		return out
	} else if class != "" {
		return fail(class, "fault-free run: "+msg, base.res)
	}
	if sc.PingMode {
		probes["probe.frame_ping_mode_runs"]++
		probes["probe.frame_pings_sent"] += int(base.pings)
	}
	out.Progress = len(base.dirs[0].read)+len(base.dirs[1].read) > 0
	out.Nontrivial = base.res.Stats["sched.contended_steps"] > 0
	probes["probe.frame_packets_roundtripped"] = len(base.dirs[0].read) + len(base.dirs[1].read)
	sample := map[string]any{"encrypt": sc.Encrypt, "protocol": sc.Protocol, "packets_ab": len(sc.AB), "packets_ba": len(sc.BAp), "bufs": sc.Bufs,
		"max_segment": sc.MaxSegment, "max_read": sc.MaxRead, "stream_bytes": [2]int64{base.dirs[0].total, base.dirs[1].total}, "handshake_bytes": [2]int64{base.dirs[0].hsBytes, base.dirs[1].hsBytes}, "fault": sc.Fault}
	out.Sample = sample
	if sc.Fault == "" {
		return out
	}
	// the recorded tape of phase 1 is re-used so that every faulted re-run sees the same schedule prefix
	sched := append([]uint32{}, tape.Rec...)
	runFault := func(fault string, dir int, off int64, mask byte, log bool) (string, string, vrt.Result) {
		o := frRun(t, sc, vrt.ReplayTape(sched), log, fault, dir, off, mask)
		c, m := frJudge(o, fault, dir)
		if c == "skip" {
			c, m = "", ""
		}
		return c, m, o.res
	}
	d := sc.FaultDir
	span := base.dirs[d].total - base.dirs[d].hsBytes
	if span <= 0 {
		return out
	}
	if !sc.Enumerate {
		off := base.dirs[d].hsBytes + int64(sc.FaultSel)%span
		class, msg, r := runFault(sc.Fault, d, off, sc.FaultMask, keepLog)
		out.Steps += r.Steps
		for k, v := range r.Stats {
			out.Stats[k] += v
		}
		probes["probe.frame_faulted_reruns"]++
		sample["fault_offset"] = off
		out.SchedSig = out.SchedSig + fmt.Sprintf("/%s%d@%d", sc.Fault, d, off)
		if class != "" {
			return fail(class, fmt.Sprintf("%s at stream offset %d (handshake ends at %d, stream length %d), mask %#x, direction %d: %s", sc.Fault, off, base.dirs[d].hsBytes, base.dirs[d].total, sc.FaultMask, d, msg), r)
		}
		return out
	}
	// thorough tier: enumerate the single-byte corruption space of this scenario
	if base.dirs[0].total+base.dirs[1].total > 8192 {
		probes["probe.frame_enumeration_skipped_large_stream"]++
		return out
	}
	for dir := 0; dir < 2; dir++ {
		for off := base.dirs[dir].hsBytes; off < base.dirs[dir].total; off++ {
			for _, mask := range []byte{0x01, 0x80, 0xFF} {
				class, msg, r := runFault("corrupt", dir, off, mask, false)
				out.Steps += r.Steps
				probes["probe.frame_faulted_reruns"]++
				probes["fault.byte_corrupted_enumerated"]++
				if class != "" {
					sc2 := sc
					sc2.Enumerate, sc2.FaultDir, sc2.FaultSel, sc2.FaultMask = false, dir, int(off-base.dirs[dir].hsBytes), mask
					_ = sc2
					return fail(class, fmt.Sprintf("corrupt at stream offset %d (handshake ends at %d, stream length %d), mask %#x, direction %d: %s [re-run with enumerate=false fault_dir=%d fault_sel=%d fault_mask=%d]", off, base.dirs[dir].hsBytes, base.dirs[dir].total, mask, dir, msg, dir, off-base.dirs[dir].hsBytes, mask), r)
				}
			}
		}
	}
	probes["probe.frame_scenarios_fully_enumerated"]++
	sample["enumerated_offsets"] = [2]int64{base.dirs[0].total - base.dirs[0].hsBytes, base.dirs[1].total - base.dirs[1].hsBytes}
	return out
}

func frShrink(sc frScenario) []frScenario {
	var out []frScenario
	cp := func() frScenario {
		b, _ := json.Marshal(sc)
		var c frScenario
		_ = json.Unmarshal(b, &c)
		return c
	}
	for _, which := range []int{0, 1} {
		ps := sc.AB
		if which == 1 {
			ps = sc.BAp
		}
		if len(ps) > 1 {
			c := cp()
			if which == 0 {
				c.AB = c.AB[:len(ps)/2]
			} else {
				c.BAp = c.BAp[:len(ps)/2]
			}
			out = append(out, c)
		}
		for i := range ps {
			if len(ps) > 1 {
				c := cp()
				if which == 0 {
					c.AB = append(c.AB[:i], c.AB[i+1:]...)
				} else {
					c.BAp = append(c.BAp[:i], c.BAp[i+1:]...)
				}
				out = append(out, c)
			}
			if ps[i].Len > 8 {
				c := cp()
				q := &c.AB
				if which == 1 {
					q = &c.BAp
				}
				(*q)[i].Len = (ps[i].Len / 2) &^ 3
				for j := range (*q)[i].Splits {
					(*q)[i].Splits[j] %= (*q)[i].Len + 1
				}
				out = append(out, c)
			}
			if ps[i].Mode != 0 {
				c := cp()
				q := &c.AB
				if which == 1 {
					q = &c.BAp
				}
				(*q)[i].Mode, (*q)[i].Splits = 0, nil
				out = append(out, c)
			}
		}
	}
	if sc.MaxSegment != 0 {
		c := cp()
		c.MaxSegment = 0
		out = append(out, c)
	}
	if sc.MaxRead != 0 {
		c := cp()
		c.MaxRead = 0
		out = append(out, c)
	}
	if sc.TimeAdvPct != 0 {
		c := cp()
		c.TimeAdvPct = 0
		out = append(out, c)
	}
	if sc.Strategy != 0 {
		c := cp()
		c.Strategy = 0
		out = append(out, c)
	}
	return out
}
