package rpc

// Worker entry point of engine `rpc`: dispatches on the scenario kind.

import (
	"encoding/json"
	"math/rand/v2"
	"sync"
	"testing"

	"github.com/VKCOM/tl/internal/zzverif/vrt"
)

type rpcEngine struct{}

var warmOnce sync.Once

// warmUp starts process-global lazy goroutines (the CPU-stat reader behind statCPUInfo) *outside*
// any bubble, so that the first simulated run does not capture them.
func warmUp() {
	warmOnce.Do(func() { _, _ = statCPUInfo.GetSelfCpuUsage() })
}

func (rpcEngine) Gen(seed uint64, params map[string]any) json.RawMessage {
	r := rand.New(rand.NewPCG(seed, 35))
	var v any
	switch params["kind"] {
	case "frame":
		v = frGen(r, params)
	default:
		v = callsGen(r, params)
	}
	b, _ := json.Marshal(v)
	return b
}

func kindOf(raw json.RawMessage) string {
	var k struct {
		Kind string `json:"kind"`
	}
	_ = json.Unmarshal(raw, &k)
	return k.Kind
}

func (rpcEngine) Exec(t *testing.T, raw json.RawMessage, tape *vrt.Tape, keepLog bool) vrt.RunOut {
	warmUp()
	switch kindOf(raw) {
	case "frame":
		var sc frScenario
		if err := json.Unmarshal(raw, &sc); err != nil {
			return vrt.RunOut{Result: vrt.Result{Outcome: "violation", Violations: []vrt.Violation{{Class: "machinery", Msg: err.Error()}}}}
		}
		return frExec(t, sc, tape, keepLog)
	default:
		var sc callsScenario
		if err := json.Unmarshal(raw, &sc); err != nil {
			return vrt.RunOut{Result: vrt.Result{Outcome: "violation", Violations: []vrt.Violation{{Class: "machinery", Msg: err.Error()}}}}
		}
		return callsExec(t, sc, tape, keepLog)
	}
}

func (rpcEngine) Shrink(raw json.RawMessage) []json.RawMessage {
	var out []json.RawMessage
	switch kindOf(raw) {
	case "frame":
		var sc frScenario
		if json.Unmarshal(raw, &sc) != nil {
			return nil
		}
		for _, c := range frShrink(sc) {
			b, _ := json.Marshal(c)
			out = append(out, b)
		}
	default:
		var sc callsScenario
		if json.Unmarshal(raw, &sc) != nil {
			return nil
		}
		for _, c := range callsShrink(sc) {
			b, _ := json.Marshal(c)
			out = append(out, b)
		}
	}
	return out
}

func TestVerifWorker(t *testing.T) { vrt.WorkerMain(t, rpcEngine{}) }

// Stable identity for pointer-typed map keys of this package (Server.connsTCP): connections on a
// unix listener all share one debug name, so a content fingerprint cannot order them.
func (sc *serverConnTCP) VerifOrderKey() string {
	if c, ok := sc.conn.conn.(*vrt.Conn); ok {
		return c.Name
	}
	return sc.debugName
}
