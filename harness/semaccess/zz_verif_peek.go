package semaphore

// Read-only accessor added to the package at build time by an overlay (never written to /repo):
// the simulator's scheduler goroutine reads the counters at quiescent points without ever blocking
// on the mutex (rewritten code only TryLocks it, so a failed TryLock just means "someone is inside").
func (s *Weighted) VerifPeek() (cur int64, size int64, ok bool) {
	if !s.mu.TryLock() {
		return 0, 0, false
	}
	cur, size = s.cur, s.size
	s.mu.Unlock()
	return cur, size, true
}
