package udp

// Engine `udp` (DESIGN.md §3.2): properties C36 and C37. Single-threaded seeded discrete-event
// simulation of several real udp.Transport state machines over a faulty datagram bag. The eight
// goroutine loops of Transport.Run are replaced by engine-owned step functions that mirror one
// iteration of the corresponding real loop line by line (goWrite, goRead, goResend, goAck,
// goResendRequest, goRegenerate); goSend/goReceive become the datagram bag. The repository's own
// step functions in fuzz_transport.go are NOT used for stepping: they deviate from the real
// loops (doGoWriteStep arms a resend timer even when one is armed and never sets resendTimeMs /
// resendTimerSeqNo; the timer burns skip the closed-connection checks), which produced alarms
// that the real loops cannot produce. Its checkInvariants is still used as an oracle. No source
// rewriting: this file is added to the package by a build overlay.

import (
	"bytes"
	"crypto/sha256"
	"encoding/binary"
	"encoding/hex"
	"encoding/json"
	"fmt"
	"math/rand/v2"
	"net"
	"net/netip"
	"runtime"
	"sort"
	"testing"
	"testing/cryptotest"
	"testing/synctest"
	"time"

	"github.com/VKCOM/tl/internal/zzverif/vrt"
	"github.com/VKCOM/tl/pkg/rpc/internal/gen/tlnetUdpPacket"
)

type udpMsg struct {
	Src  int `json:"s"`
	Dst  int `json:"d"`
	Size int `json:"n"`
}

// event kinds; kind 0 must be harmless (a zeroed tape = write steps at node 0, no fault)
const (
	evWrite = iota
	evRead
	evEncHdr
	evSubmit
	evResendTimer
	evAckTimer
	evResendReqTimer
	evAdvance
	evDrop
	evDup
	evCorrupt
	evRegenerate
	numEvKinds
)

var evNames = [numEvKinds]string{"write", "read", "enchdr", "submit", "resend_timer", "ack_timer", "resendreq_timer", "advance", "drop", "dup", "corrupt", "regenerate"}

type udpScenario struct {
	Mode       string           `json:"mode"` // norestart | restart | acks
	Focus      string           `json:"focus"` // property whose violation classes are reported (C36 or C37)
	Nodes      int              `json:"nodes"`
	MaxChunk   int              `json:"max_chunk"`
	MemMsgs    int              `json:"mem_limit_msgs"`
	InWin      int              `json:"in_window"`
	OutWin     int              `json:"out_window"`
	StreamLike bool             `json:"stream_like"`
	Messages   []udpMsg         `json:"messages"`
	Steps      int              `json:"steps"`
	Weights    [numEvKinds]int  `json:"weights"`
	CryptoSeed int64            `json:"crypto_seed"`
	Acks       *udpAcksScenario `json:"acks,omitempty"`
}

type udpAcksScenario struct {
	Base   uint32      `json:"base"`   // domain offset (0 or near 2^32-1-Span)
	Span   uint32      `json:"span"`   // domain size
	Ranges [][2]uint32 `json:"ranges"` // offsets within the domain
}

const udpMaxMsg = 252

type udpEngine struct{}

func (udpEngine) Gen(seed uint64, params map[string]any) json.RawMessage {
	r := rand.New(rand.NewPCG(seed, 36))
	sc := udpScenario{Mode: "norestart"}
	if m, ok := params["mode"].(string); ok {
		sc.Mode = m
	}
	sc.Focus, _ = params["focus"].(string)
	if sc.Mode == "acks" {
		a := &udpAcksScenario{Span: uint32(4 + r.IntN(61))}
		if r.IntN(3) == 0 {
			a.Base = ^uint32(0) - 1 - a.Span // highest number used is 2^32-2: ackTo+1 never wraps
		} else if r.IntN(3) == 0 {
			a.Base = uint32(r.IntN(1 << 30))
		}
		n := 1 + r.IntN(24)
		if r.IntN(4) == 0 {
			// many holes: a long stream in which every second (or third) datagram is missing, arriving in a
			// seeded order - more holes than one negative acknowledgement can list
			a.Span = uint32(120 + r.IntN(400))
			if a.Base > 1<<31 {
				a.Base = ^uint32(0) - 1 - a.Span
			}
			stride := uint32(2 + r.IntN(2))
			var pts [][2]uint32
			for x := uint32(r.IntN(3)); x+1 < a.Span; x += stride {
				w := uint32(0)
				if stride == 3 && r.IntN(2) == 0 {
					w = 1
				}
				pts = append(pts, [2]uint32{x, x + w})
			}
			if r.IntN(2) == 0 {
				r.Shuffle(len(pts), func(i, j int) { pts[i], pts[j] = pts[j], pts[i] })
			}
			a.Ranges = append(a.Ranges, pts...)
			n = r.IntN(6) // then a few ordinary ranges that close some of the holes
		}
		for i := 0; i < n; i++ {
			from := uint32(r.IntN(int(a.Span)))
			l := uint32(0)
			if r.IntN(2) == 0 {
				l = uint32(r.IntN(int(a.Span-from))) / uint32(1+r.IntN(4))
			}
			a.Ranges = append(a.Ranges, [2]uint32{from, from + l})
		}
		sc.Acks = a
		b, _ := json.Marshal(sc)
		return b
	}
	sc.Nodes = 2 + r.IntN(5)
	sc.MaxChunk = 8 + 4*r.IntN(15)
	sc.MemMsgs = 1 + r.IntN(4)
	// window sizes are compile-time constants of the package (no API sets them); making them small
	// produced stalls that no deployment can see, so they stay at their real value
	sc.InWin, sc.OutWin = DefaultMaxWindowSize, DefaultMaxWindowSize
	sc.StreamLike = r.IntN(2) == 0
	sc.CryptoSeed = int64(r.Uint64() >> 1)
	nm := 1 + r.IntN(40)
	if r.IntN(3) == 0 {
		nm = 1 + r.IntN(6)
	}
	for i := 0; i < nm; i++ {
		s := r.IntN(sc.Nodes - 1)
		d := s + 1 + r.IntN(sc.Nodes-1-s) // the protocol supports one active side per pair: lower id connects
		size := 4 * (1 + r.IntN(udpMaxMsg/4))
		if r.IntN(3) == 0 {
			size = 4 * (1 + r.IntN(6))
		}
		sc.Messages = append(sc.Messages, udpMsg{s, d, size})
	}
	sc.Steps = 20 + r.IntN(40*nm+200)
	// swarm: every run enables a random subset of fault kinds with random weights
	w := &sc.Weights
	w[evWrite] = 10 + r.IntN(30)
	w[evRead] = 10 + r.IntN(30)
	w[evEncHdr] = 10 + r.IntN(30)
	w[evSubmit] = 2 + r.IntN(15)
	w[evResendTimer] = r.IntN(10)
	w[evAckTimer] = r.IntN(10)
	w[evResendReqTimer] = r.IntN(10)
	w[evAdvance] = r.IntN(6)
	if r.IntN(2) == 0 {
		w[evDrop] = 1 + r.IntN(10)
	}
	if r.IntN(2) == 0 {
		w[evDup] = 1 + r.IntN(10)
	}
	if r.IntN(3) == 0 {
		w[evCorrupt] = 1 + r.IntN(5)
	}
	if r.IntN(3) == 0 {
		// "burst" class: many one-chunk messages on very few connections, each in its own datagram, a slow
		// reader (backlog => reordering) and busy ack / resend-request timers: the states in which selective
		// acknowledgements race with resend requests over multi-chunk ranges
		sc.Nodes = 2 + r.IntN(2)
		sc.Messages = sc.Messages[:0]
		nm = 5 + r.IntN(26)
		for i := 0; i < nm; i++ {
			d := 1 + r.IntN(sc.Nodes-1)
			sc.Messages = append(sc.Messages, udpMsg{0, d, 4 * (1 + r.IntN(3))})
		}
		sc.Steps = 40 + r.IntN(30*nm+100)
		w[evSubmit] = 15 + r.IntN(20)
		w[evWrite] = 20 + r.IntN(30)
		w[evEncHdr] = 10 + r.IntN(20)
		w[evRead] = 4 + r.IntN(12)
		w[evAckTimer] = 3 + r.IntN(12)
		w[evResendReqTimer] = 3 + r.IntN(12)
		w[evResendTimer] = r.IntN(6)
	}
	if sc.Mode == "restart" {
		w[evRegenerate] = 1 + r.IntN(4)
	}
	if params["fault_free"] == true {
		w[evDrop], w[evDup], w[evCorrupt], w[evRegenerate] = 0, 0, 0, 0
	}
	b, _ := json.Marshal(sc)
	return b
}

func (udpEngine) Shrink(raw json.RawMessage) []json.RawMessage {
	var sc udpScenario
	if json.Unmarshal(raw, &sc) != nil {
		return nil
	}
	var out []json.RawMessage
	base, _ := json.Marshal(sc)
	emit := func(f func(c *udpScenario)) {
		var cp udpScenario
		_ = json.Unmarshal(base, &cp)
		f(&cp)
		nb, _ := json.Marshal(cp)
		if !bytes.Equal(nb, base) {
			out = append(out, nb)
		}
	}
	if sc.Acks != nil {
		for i := range sc.Acks.Ranges {
			i := i
			emit(func(c *udpScenario) { c.Acks.Ranges = append(c.Acks.Ranges[:i], c.Acks.Ranges[i+1:]...) })
		}
		return out
	}
	if len(sc.Messages) > 1 {
		emit(func(c *udpScenario) { c.Messages = c.Messages[:len(c.Messages)/2] })
		for i := range sc.Messages {
			i := i
			emit(func(c *udpScenario) { c.Messages = append(c.Messages[:i], c.Messages[i+1:]...) })
		}
	}
	if sc.Steps > 1 {
		emit(func(c *udpScenario) { c.Steps = c.Steps / 2 })
		emit(func(c *udpScenario) { c.Steps = c.Steps - 1 })
	}
	for i, m := range sc.Messages {
		i := i
		if m.Size > 4 {
			emit(func(c *udpScenario) { c.Messages[i].Size = 4 })
		}
	}
	for _, k := range []int{evCorrupt, evDup, evDrop, evRegenerate, evAdvance, evResendReqTimer, evAckTimer, evResendTimer} {
		k := k
		if sc.Weights[k] > 0 {
			emit(func(c *udpScenario) { c.Weights[k] = 0 })
		}
	}
	return out
}

// ---------------------------------------------------------------------------------------------

type sentMsg struct {
	msg       udpMsg
	serial    uint32
	content   []byte
	delivered int
}

type connTrack struct {
	outPrefix, inPrefix uint32
	gen                 uint32
}

// connMem is the harness's independent view of what one connection holds of the transport's
// incoming-memory budget: the stream range it has reserved (total-begin) minus the messages in the
// window whose bytes were already handed to the handler. alloc is the part backed by message
// buffers (what a connection reset gives back); held-alloc is reserved for stream gaps.
type connMem struct{ held, alloc int64 }

func shadowMem(c *Connection) connMem {
	in := &c.incoming
	var released, alloc int64
	var last *IncomingMessage
	for s := in.ackPrefix; s != in.nextSeqNo; s++ {
		ch, ok := in.windowChunks.Get(s)
		if !ok || ch.message == nil {
			last = nil
			continue
		}
		if ch.message == &fakeMessage {
			released += int64(ch.messageSize)
			last = nil
			continue
		}
		if ch.message == last {
			continue
		}
		last = ch.message
		if ch.message.data != nil {
			alloc += int64(len(*ch.message.data))
		} else {
			// delivered already (non stream-like): size is recorded on its received chunks
			var size uint32
			for q := s; q != in.nextSeqNo; q++ {
				c2, ok := in.windowChunks.Get(q)
				if !ok || c2.message != ch.message {
					break
				}
				if c2.messageSize > size {
					size = c2.messageSize
				}
			}
			released += int64(size)
		}
	}
	return connMem{held: in.messagesTotalOffset - in.messagesBeginOffset - released, alloc: alloc}
}

type udpRun struct {
	sc     udpScenario
	tape   *vrt.Tape
	fctx   *FuzzTransportContext
	sent   []*sentMsg
	bySer  map[uint32]*sentMsg
	next   int // next message to submit
	alloc  int
	dealloc int

	origSum   map[*byte][32]byte // sha256 of the datagram before its first corruption (a second flip of the same bit restores it)
	corrupted map[*byte]int // copies in flight of datagrams (by first byte address) that carry an injected corruption
	track     map[*Connection]*connTrack
	refAcks   map[*Connection]*refSet
	rcvBufs   map[*[]byte]bool // buffers handed out by the message allocator and not yet delivered/released
	memSnap   [transports]map[*Connection]connMem
	gapLeak   [transports]int64 // gap reservations of connections that were reset since (shadow account)

	logH    interface{ Write([]byte) (int, error) }
	sum     func() string
	lines   []string
	keepLog bool
	stats   map[string]int
	viol    []vrt.Violation
	step    int
	delivered int
	start   time.Time
}

func (r *udpRun) logf(format string, a ...any) {
	line := fmt.Sprintf(format, a...)
	fmt.Fprintf(r.logH, "%d %s\n", r.step, line)
	if r.keepLog {
		r.lines = append(r.lines, fmt.Sprintf("%d t=%v %s", r.step, time.Since(r.start), line))
	}
}

func (r *udpRun) fail(class, msg string) {
	if r.sc.Focus != "" && len(class) > 3 && class[:3] != r.sc.Focus && class != "machinery" {
		r.stats["other_property_class."+class]++
		return
	}
	r.viol = append(r.viol, vrt.Violation{Class: class, Msg: msg, Step: r.step})
	r.logf("VIOLATION %s", class)
	if r.keepLog {
		r.lines = append(r.lines, "VIOLATION "+class+": "+msg)
	}
}

func (r *udpRun) handler(src, dst int) MessageHandler {
	return func(message *[]byte, canSave bool) {
		if canSave { // the handler takes ownership of a buffer obtained from the message allocator (canSave=false: borrowed read buffer)
			r.dealloc++
			if !r.rcvBufs[message] {
				r.fail("C36/foreign-buffer", fmt.Sprintf("%d->%d handler was given ownership of a buffer the message allocator never returned (or that was already released)", src, dst))
			}
			delete(r.rcvBufs, message)
		}
		m := *message
		r.delivered++
		r.logf("deliver %d->%d len=%d", src, dst, len(m))
		if r.sc.Mode == "restart" {
			return // delivery is not part of the property under restarts
		}
		if len(m) < 4 {
			r.fail("C36/corrupt-delivery", fmt.Sprintf("%d->%d delivered %d bytes", src, dst, len(m)))
			return
		}
		ser := binary.LittleEndian.Uint32(m)
		sm := r.bySer[ser]
		if sm == nil || sm.msg.Src != src || sm.msg.Dst != dst || !bytes.Equal(sm.content, m) {
			r.fail("C36/corrupt-delivery", fmt.Sprintf("%d->%d delivered a message (len %d, head %x) that was never submitted on that connection", src, dst, len(m), m[:4]))
			return
		}
		sm.delivered++
		if sm.delivered > 1 {
			r.fail("C36/duplicate-delivery", fmt.Sprintf("message serial %d (%d->%d, len %d) delivered %d times", ser, src, dst, len(m), sm.delivered))
		}
	}
}

func (r *udpRun) setup() {
	MaxChunkSize = r.sc.MaxChunk
	r.fctx = &FuzzTransportContext{sentMessages: map[RandomMessage]int{}, receivedMessages: map[RandomMessage]int{}}
	limit := int64(r.sc.MemMsgs * udpMaxMsg)
	for tId := 0; tId < transports; tId++ {
		udpAddr, err := net.ResolveUDPAddr("udp", transportIdToAddress(tId))
		if err != nil {
			panic(err)
		}
		tIdCopy := tId
		t, err := NewTransport(limit, []string{"01234567890123456789012345678901"}, nil, udpAddr, uint32(time.Now().Unix()),
			func(conn *Connection) {
				conn.MessageHandle = r.handler(addressToTransportId(conn.remoteAddr().String()), tIdCopy)
				conn.StreamLikeIncoming = r.sc.StreamLike
			},
			func(_ *Connection) {},
			func(size int) *[]byte { r.alloc++; m := make([]byte, size); r.rcvBufs[&m] = true; return &m },
			func(p *[]byte) { r.dealloc++; delete(r.rcvBufs, p) },
			0, 0, false, false, nil, nil, nil, nil, nil, nil)
		if err != nil {
			panic(err)
		}
		// the real constructor folds os.Getpid() into the pid; pin it so that runs replay across processes
		t.localPid.PortPid = uint32(22800+tId) + (4242 << 16)
		t.maxIncomingWindowSize = r.sc.InWin
		t.maxOutgoingWindowSize = r.sc.OutWin
		r.fctx.ts[tId] = t
	}
}

func (r *udpRun) submit() bool {
	if r.next >= len(r.sc.Messages) {
		return false
	}
	m := r.sc.Messages[r.next]
	ser := uint32(0x5A000000 + r.next)
	r.next++
	content := make([]byte, m.Size)
	binary.LittleEndian.PutUint32(content, ser)
	x := uint64(ser)*0x9E3779B97F4A7C15 + uint64(r.sc.CryptoSeed)
	for i := 4; i < len(content); i++ {
		x ^= x << 13
		x ^= x >> 7
		x ^= x << 17
		content[i] = byte(x)
	}
	sm := &sentMsg{msg: m, serial: ser, content: append([]byte{}, content...)}
	r.sent = append(r.sent, sm)
	r.bySer[ser] = sm
	r.alloc++
	conn, err := r.fctx.ts[m.Src].ConnectTo(netip.MustParseAddrPort(r.fctx.ts[m.Dst].socketAddr.String()), r.handler(m.Dst, m.Src), r.sc.StreamLike, nil)
	if err != nil {
		panic(err)
	}
	if err := conn.SendMessage(&content); err != nil {
		panic(err)
	}
	r.logf("submit %d->%d len=%d ser=%x", m.Src, m.Dst, m.Size, ser)
	return true
}

// readStep mirrors one iteration of Transport.goRead for one datagram taken from the bag.
func (r *udpRun) readStep(tid, dgrmId int) {
	fctx := r.fctx
	t := fctx.ts[tid]
	t.writeMu.Lock()
	for t.newGoReadRegenerates.Len() > 0 {
		conn := t.newGoReadRegenerates.PopFront()
		if conn.GetFlag(closedFlag) {
			continue
		}
		if conn.GetFlag(stopRegenerateTimerFlag) {
			conn.SetFlag(stopRegenerateTimerFlag, false)
			continue
		}
		t.stats.RegenerateTimerBurned.Add(1)
		conn.SetFlag(closedFlag, true)
		conn.resetLockedState()
		t.closedConnections.PushBack(conn)
		t.newGoReadRegeneratesLocal.PushBack(conn)
	}
	t.writeMu.Unlock()
	for t.newGoReadRegeneratesLocal.Len() > 0 {
		conn := t.newGoReadRegeneratesLocal.PopFront()
		t.renewConnection(conn, conn.generation+1, conn.remotePid())
		r.stats["fault.generation_bump"]++
	}
	l := len(fctx.network[tid])
	if l == 0 {
		return
	}
	d := fctx.network[tid][dgrmId%l]
	fctx.network[tid][dgrmId%l] = fctx.network[tid][l-1]
	fctx.network[tid] = fctx.network[tid][:l-1]
	if dgrmId%l != 0 {
		r.stats["fault.reordered_delivery"]++
	}
	wasCorrupted := false
	if len(d.datagram) > 0 && r.corrupted[&d.datagram[0]] > 0 {
		wasCorrupted = true
		if r.corrupted[&d.datagram[0]]--; r.corrupted[&d.datagram[0]] == 0 {
			delete(r.corrupted, &d.datagram[0]) // the address may be reused by a later, clean datagram
		}
	}
	var enc tlnetUdpPacket.EncHeader
	var resendReq tlnetUdpPacket.ResendRequest
	conn, err := t.processIncomingDatagram(d.addr, t.localPid.Ip, d.datagram, &enc, &resendReq)
	if err != nil {
		if wasCorrupted {
			r.stats["probe.corrupted_datagram_rejected"]++
		} else {
			r.stats["probe.clean_datagram_rejected"]++
		}
		r.logf("read %d: rejected (%v)", tid, err)
		return
	}
	if wasCorrupted {
		r.stats["probe.corrupted_datagram_accepted"]++
	}
	if r.keepLog {
		r.lines = append(r.lines, fmt.Sprintf("    read %d from %v: conn=%v enc{num=%v:%d from=%v:%d+%d ackprefix=%v:%d} rr=%d", tid, d.addr, conn != nil, enc.IsSetPacketNum(), enc.PacketNum, enc.IsSetPacketsFrom(), enc.PacketsFrom, enc.PacketsCount, enc.IsSetPacketAckPrefix(), enc.PacketAckPrefix, len(resendReq.Ranges)))
	}
	if conn != nil {
		t.writeMu.Lock()
		if conn.GetFlag(inRegenerateQueue) {
			conn.SetFlag(stopRegenerateTimerFlag, true)
		}
		t.GoReadHandleEncHdr(conn, enc)
		if len(resendReq.Ranges) > 0 {
			t.newResendRequestsRcvs.PushBack(ConnResendRequest{conn: conn, req: resendReq})
			r.stats["probe.resend_request_received"]++
		}
		t.writeMu.Unlock()
	}
}

// goWriteIter mirrors one iteration of the loop in Transport.goWrite; the "socket" is the bag.
func (r *udpRun) goWriteIter(tid int) bool {
	t := r.fctx.ts[tid]
	t.writeMu.Lock()
	data, conn, needResendTimer, needRegenerateTimer, _, _ := t.goWriteStep()
	if data == nil {
		t.writeMu.Unlock() // post-condition of goWriteStep: still locked when there is nothing to send
		return false
	}
	dstId := addressToTransportId(conn.remoteAddr().String())
	cp := append([]byte{}, data...)
	r.fctx.network[dstId] = append(r.fctx.network[dstId], TestDatagram{datagram: cp, addr: netip.MustParseAddrPort(t.socketAddr.String())})
	t.writeMu.Lock()
	if conn.status == ConnectionSentObsoleteGeneration {
		if conn.activeSide {
			conn.status = ConnectionStatusWaitingForRemotePid
		} else {
			conn.status = ConnectionStatusWaitingForHash
		}
	}
	if conn.outgoing.haveChunksToSendNow(t) {
		t.addConnectionToSendQueueLocked(conn)
	}
	if needResendTimer && !conn.GetFlag(inResendQueueFlag) {
		conn.resendTimeMs = time.Now().UnixMilli() + conn.resendTimeout
		conn.resendTimerSeqNo = conn.outgoing.notSendedSeqNum
		t.resendTimers.Add(conn)
		conn.SetFlag(inResendQueueFlag, true)
	}
	if needRegenerateTimer && !conn.GetFlag(inRegenerateQueue) {
		conn.regenerateTimeMs = time.Now().UnixMilli() + t.regenerateTimeout
		t.regenerateTimers.PushBack(conn)
		conn.SetFlag(inRegenerateQueue, true)
	}
	t.writeMu.Unlock()
	return true
}

func sleepUntilMs(ms int64) {
	if d := ms - time.Now().UnixMilli(); d > 0 {
		time.Sleep(time.Duration(d) * time.Millisecond)
	}
}

// fireResend mirrors goResend for the earliest timer: the clock first advances to its deadline.
func (r *udpRun) fireResend(tid int) bool {
	t := r.fctx.ts[tid]
	t.writeMu.Lock()
	defer t.writeMu.Unlock()
	for t.resendTimers.Len() > 0 {
		conn := t.resendTimers.ExtractMin()
		t.writeMu.Unlock()
		sleepUntilMs(conn.resendTimeMs)
		t.writeMu.Lock()
		if conn.GetFlag(closedFlag) {
			continue
		}
		t.newResends.PushBack(conn)
		return true
	}
	return false
}

func (r *udpRun) fireAck(tid int) bool {
	t := r.fctx.ts[tid]
	t.writeMu.Lock()
	defer t.writeMu.Unlock()
	for t.ackTimers.Len() > 0 {
		conn := t.ackTimers.PopFront()
		if conn.GetFlag(closedFlag) {
			continue
		}
		t.writeMu.Unlock()
		sleepUntilMs(conn.ackTimeMs)
		t.writeMu.Lock()
		conn.SetFlag(inAckQueueFlag, false)
		t.newAckSnds.PushBack(conn)
		return true
	}
	return false
}

func (r *udpRun) fireResendRequest(tid int) bool {
	t := r.fctx.ts[tid]
	t.writeMu.Lock()
	defer t.writeMu.Unlock()
	for t.resendRequestTimers.Len() > 0 {
		conn := t.resendRequestTimers.ExtractMin()
		t.writeMu.Unlock()
		sleepUntilMs(conn.resendRequestTimeMs)
		t.writeMu.Lock()
		if conn.GetFlag(closedFlag) {
			continue
		}
		conn.SetFlag(inResendRequestQueueFlag, false)
		t.newResendRequestSnds.PushBack(conn)
		return true
	}
	return false
}

func (r *udpRun) fireRegenerate(tid int) bool {
	t := r.fctx.ts[tid]
	t.writeMu.Lock()
	defer t.writeMu.Unlock()
	if t.regenerateTimers.Len() == 0 {
		return false
	}
	conn := t.regenerateTimers.PopFront()
	t.writeMu.Unlock()
	sleepUntilMs(conn.regenerateTimeMs)
	t.writeMu.Lock()
	conn.SetFlag(inRegenerateQueue, false)
	t.newGoReadRegenerates.PushBack(conn)
	return true
}

// writeStep wraps goWriteIter with the C37 monitor: every enc header handed to the writer is an
// AddAckRange the step will perform; afterwards the connection's AcksToSend must represent exactly
// the union of the recorded ranges.
func (r *udpRun) writeStep(tid int) {
	t := r.fctx.ts[tid]
	closing := map[*Connection]bool{}
	for i := 0; i < t.closedConnections.Len(); i++ {
		closing[t.closedConnections.Index(i)] = true
	}
	touched := map[*Connection]bool{}
	for i := 0; i < t.newHdrRcvs.Len(); i++ {
		h := t.newHdrRcvs.Index(i)
		if h.conn.GetFlag(writeClosedFlag) || closing[h.conn] {
			continue
		}
		ref := r.refAcks[h.conn]
		if ref == nil {
			ref = &refSet{}
			r.refAcks[h.conn] = ref
		}
		if h.enc.IsSetPacketsFrom() {
			ref.add(h.enc.PacketsFrom, h.enc.PacketsFrom+h.enc.PacketsCount-1)
			r.stats["probe.c37_ranges_recorded"]++
		}
		if h.enc.IsSetPacketNum() && h.enc.PacketNum != ^uint32(0) {
			ref.add(h.enc.PacketNum, h.enc.PacketNum)
			r.stats["probe.c37_ranges_recorded"]++
		}
		touched[h.conn] = true
	}
	if r.goWriteIter(tid) {
		r.stats["probe.datagrams_sent"]++
		r.logf("  write %d produced a datagram (resendTimers=%d ackTimers=%d rrTimers=%d)", tid, t.resendTimers.Len(), t.ackTimers.Len(), t.resendRequestTimers.Len())
	}
	for c := range closing {
		delete(r.refAcks, c)
	}
	// deterministic order for reporting
	var cs []*Connection
	for c := range touched {
		cs = append(cs, c)
	}
	sort.Slice(cs, func(i, j int) bool { return cs[i].remotePort < cs[j].remotePort })
	for _, c := range cs {
		if c.GetFlag(writeClosedFlag) {
			continue
		}
		if msg := checkAcksAgainst(&c.acks, r.refAcks[c]); msg != "" {
			r.fail("C37/ack-set-mismatch", fmt.Sprintf("node %d conn to port %d: %s", tid, c.remotePort, msg))
			return
		}
		r.stats["probe.c37_monitor_checks"]++
		if c.acks.HaveHoles() {
			r.stats["probe.c37_checked_with_holes"]++
		}
	}
}

func (r *udpRun) invariants() {
	for tid, t := range r.fctx.ts {
		if t.acquiredMemory > t.incomingMessagesMemoryLimit {
			r.fail("C36/memory-limit-exceeded", fmt.Sprintf("node %d acquiredMemory=%d limit=%d", tid, t.acquiredMemory, t.incomingMessagesMemoryLimit))
		}
		if t.acquiredMemory < 0 {
			r.fail("C36/memory-negative", fmt.Sprintf("node %d acquiredMemory=%d", tid, t.acquiredMemory))
		}
		if t.acquiredMemory > 0 {
			r.stats["probe.memory_held_steps"]++
		}
		if t.memoryWaiters.Len() > 0 {
			r.stats["probe.memory_waiter_queued_steps"]++
		}
		// shadow memory account
		cur := map[*Connection]connMem{}
		var sum int64
		for _, c := range t.handshakeByPid {
			m := shadowMem(c)
			cur[c] = m
			sum += m.held
		}
		for c, m := range r.memSnap[tid] {
			if _, still := cur[c]; !still && m.held > m.alloc {
				r.gapLeak[tid] += m.held - m.alloc
				r.stats["probe.reset_connection_had_gap_reservation"]++
			}
		}
		r.memSnap[tid] = cur
		if t.memoryWaiters.Len() == 0 && sum != t.acquiredMemory {
			r.stats["probe.shadow_memory_account_differs"]++ // ownerless bytes; judged at the end of the run
		}
		if r.sc.Mode != "norestart" {
			continue
		}
		for _, c := range t.handshakeByPid {
			tr := r.track[c]
			if tr == nil {
				tr = &connTrack{gen: c.generation}
				r.track[c] = tr
			}
			if c.generation != tr.gen {
				tr.gen, tr.outPrefix, tr.inPrefix = c.generation, 0, 0
			}
			if c.outgoing.ackSeqNoPrefix < tr.outPrefix {
				r.fail("C36/acked-prefix-decreased", fmt.Sprintf("node %d conn to %d: outgoing acknowledged prefix %d -> %d", tid, c.remotePort, tr.outPrefix, c.outgoing.ackSeqNoPrefix))
			}
			if c.incoming.ackPrefix < tr.inPrefix {
				r.fail("C36/received-prefix-decreased", fmt.Sprintf("node %d conn to %d: incoming received prefix %d -> %d", tid, c.remotePort, tr.inPrefix, c.incoming.ackPrefix))
			}
			tr.outPrefix, tr.inPrefix = c.outgoing.ackSeqNoPrefix, c.incoming.ackPrefix
		}
	}
}

// guarded runs one event; a panic of the transport or of the repository's own invariant checker is a violation.
func (r *udpRun) guarded(what string, f func()) {
	defer func() {
		if p := recover(); p != nil {
			buf := make([]byte, 2048)
			buf = buf[:runtime.Stack(buf, false)]
			r.fail("C36/panic", fmt.Sprintf("%s: %v\n%s", what, p, buf))
			// a step that panicked may have left writeMu locked
			for _, t := range r.fctx.ts {
				if t.writeMu.TryLock() {
					t.writeMu.Unlock()
				}
			}
		}
	}()
	f()
	r.repoInvariants()
	r.invariants()
}

// repoInvariants runs the repository's own invariant checkers piecewise. One assertion of
// Connection.checkInvariants is refined: "un-timed-out outstanding chunks imply chunks to send now
// or an armed resend timer" also holds while the connection sits in the send queue (its timer is
// armed when the writer pops it) or its fired timer is still in the writer's inbox; the original
// omits those two transient states and fires on the unchanged tree in states the real loops leave
// by themselves.
func (r *udpRun) repoInvariants() {
	for _, t := range r.fctx.ts {
		t.checkInvariants()
		inbox := map[*Connection]bool{}
		for i := 0; i < t.newResends.Len(); i++ {
			inbox[t.newResends.Index(i)] = true
		}
		for _, c := range t.handshakeByPid {
			c.incoming.checkInvariants()
			c.outgoing.checkInvariants()
			c.acks.checkInvariantsFuzz()
			if c.outgoing.nonTimeoutedSeqNum < c.outgoing.nextSeqNo && !(c.outgoing.haveChunksToSendNow(t) || c.GetFlag(inResendQueueFlag)) {
				if c.GetFlag(inSendQueueFlag) || inbox[c] {
					r.stats["probe.outstanding_chunks_timer_pending_in_queue"]++
				} else {
					panic("conn has un-acked, un-timed-out chunks, nothing to send now, no resend timer armed, and is neither in the send queue nor in the writer's inbox")
				}
			}
			if c.acks.ackPrefix > c.incoming.ackPrefix {
				panic("AcksToSend::ackPrefix > IncomingConnection::ackPrefix")
			}
			for rg := c.acks.firstRange; rg != nil; rg = rg.next {
				for n := rg.ackFrom; n <= rg.ackTo; n++ {
					if n < c.incoming.ackPrefix {
						continue
					}
					if ch, _ := c.incoming.windowChunks.Get(n); !ch.received() {
						panic(fmt.Sprintf("AcksToSend has acked range [%d...%d], but seqNum %d isn't received in IncomingConnection", rg.ackFrom, rg.ackTo, n))
					}
				}
			}
		}
	}
}

func (r *udpRun) pickNode() int { return r.tape.Next(r.sc.Nodes) }

func (r *udpRun) randomEvent() {
	total := 0
	for _, w := range r.sc.Weights {
		total += w
	}
	x := r.tape.Next(total)
	kind := 0
	for k, w := range r.sc.Weights {
		if x < w {
			kind = k
			break
		}
		x -= w
	}
	r.stats["event."+evNames[kind]]++
	switch kind {
	case evWrite:
		n := r.pickNode()
		r.logf("write %d", n)
		r.guarded("write", func() { r.writeStep(n) })
	case evRead:
		n := r.pickNode()
		l := len(r.fctx.network[n])
		idx := 0
		if l > 1 {
			idx = r.tape.Next(l)
		}
		r.logf("read %d dgram %d/%d", n, idx, l)
		r.guarded("read", func() { r.readStep(n, idx) })
	case evEncHdr: // (the real goRead hands the enc header to the writer itself; kept as a second write kind)
		n := r.pickNode()
		r.logf("write %d", n)
		r.guarded("write", func() { r.writeStep(n) })
	case evSubmit:
		r.guarded("submit", func() { r.submit() })
	case evResendTimer:
		n := r.pickNode()
		r.logf("resend timer %d (%d armed)", n, r.fctx.ts[n].resendTimers.Len())
		r.guarded("resend timer", func() {
			if r.fireResend(n) {
				r.stats["fault.resend_timer_fired"]++
			}
		})
	case evAckTimer:
		n := r.pickNode()
		r.logf("ack timer %d", n)
		r.guarded("ack timer", func() {
			if r.fireAck(n) {
				r.stats["probe.ack_timer_fired"]++
			}
		})
	case evResendReqTimer:
		n := r.pickNode()
		r.logf("resend-request timer %d (%d armed)", n, r.fctx.ts[n].resendRequestTimers.Len())
		r.guarded("resend-request timer", func() {
			if r.fireResendRequest(n) {
				r.stats["fault.resend_request_timer_fired"]++
			}
		})
	case evAdvance:
		k := r.tape.Next(18)
		d := time.Millisecond << uint(k) // 1ms .. ~131s, beyond MaxResendTimeout
		r.logf("advance %v", d)
		r.stats["fault.clock_jump"]++
		time.Sleep(d)
	case evDrop:
		n := r.pickNode()
		if l := len(r.fctx.network[n]); l > 0 {
			idx := r.tape.Next(l)
			if dd := r.fctx.network[n][idx]; len(dd.datagram) > 0 && r.corrupted[&dd.datagram[0]] > 0 {
				if r.corrupted[&dd.datagram[0]]--; r.corrupted[&dd.datagram[0]] == 0 {
					delete(r.corrupted, &dd.datagram[0])
				}
			}
			r.fctx.network[n][idx] = r.fctx.network[n][l-1]
			r.fctx.network[n] = r.fctx.network[n][:l-1]
			r.stats["fault.datagram_dropped"]++
			r.logf("drop %d dgram %d", n, idx)
		}
	case evDup:
		n := r.pickNode()
		if l := len(r.fctx.network[n]); l > 0 && l < 64 {
			idx := r.tape.Next(l)
			dd := r.fctx.network[n][idx]
			r.fctx.network[n] = append(r.fctx.network[n], dd)
			if len(dd.datagram) > 0 && r.corrupted[&dd.datagram[0]] > 0 {
				r.corrupted[&dd.datagram[0]]++
			}
			r.stats["fault.datagram_duplicated"]++
			r.logf("dup %d dgram %d", n, idx)
		}
	case evCorrupt:
		n := r.pickNode()
		if l := len(r.fctx.network[n]); l > 0 {
			idx := r.tape.Next(l)
			d := r.fctx.network[n][idx]
			if len(d.datagram) > 0 {
				cp := append([]byte{}, d.datagram...)
				off := r.tape.Next(len(cp))
				mask := byte(1) << uint(r.tape.Next(8))
				cp[off] ^= mask
				r.fctx.network[n][idx] = TestDatagram{addr: d.addr, datagram: cp}
				orig := sha256.Sum256(d.datagram)
				if len(d.datagram) > 0 && r.corrupted[&d.datagram[0]] > 0 { // corrupting an already corrupted copy
					orig = r.origSum[&d.datagram[0]]
					if r.corrupted[&d.datagram[0]]--; r.corrupted[&d.datagram[0]] == 0 {
						delete(r.corrupted, &d.datagram[0])
						delete(r.origSum, &d.datagram[0])
					}
				}
				if sha256.Sum256(cp) == orig {
					r.stats["probe.second_corruption_restored_the_datagram"]++
				} else {
					r.corrupted[&cp[0]] = 1
					r.origSum[&cp[0]] = orig
				}
				r.stats["fault.datagram_corrupted"]++
				r.logf("corrupt %d dgram %d off %d mask %x", n, idx, off, mask)
			}
		}
	case evRegenerate:
		n := r.pickNode()
		r.logf("regenerate timer %d", n)
		r.guarded("regenerate timer", func() {
			if r.fireRegenerate(n) {
				r.stats["fault.regenerate_timer_fired"]++
			}
		})
	}
}

func (r *udpRun) writeAll() {
	for tid := 0; tid < r.sc.Nodes; tid++ {
		n := len(r.fctx.ts[tid].handshakeByPid) + 2
		for i := 0; i < n && len(r.viol) == 0; i++ {
			r.guarded("settle write", func() { r.writeStep(tid) })
		}
	}
}

func (r *udpRun) deliverAll() {
	for again := true; again && len(r.viol) == 0; {
		again = false
		for tid := 0; tid < r.sc.Nodes; tid++ {
			for len(r.fctx.network[tid]) > 0 && len(r.viol) == 0 {
				r.guarded("settle read", func() { r.readStep(tid, 0) })
				again = true
			}
		}
	}
}

func (r *udpRun) quiet() bool {
	for tid := 0; tid < r.sc.Nodes; tid++ {
		if len(r.fctx.network[tid]) > 0 || len(r.fctx.encHdrs[tid]) > 0 {
			return false
		}
	}
	return true
}

func (r *udpRun) undelivered() int {
	n := 0
	for _, m := range r.sent {
		if m.delivered == 0 {
			n++
		}
	}
	return n
}

func (r *udpRun) partialIncoming() bool {
	for tid := 0; tid < r.sc.Nodes; tid++ {
		for _, c := range r.fctx.ts[tid].handshakeByPid {
			if c.incoming.windowChunks.LenMoreThan1() {
				return true
			}
		}
	}
	return false
}

func (r *udpRun) describe() string {
	out := ""
	for tid := 0; tid < r.sc.Nodes; tid++ {
		t := r.fctx.ts[tid]
		var ports []int
		byPort := map[int]*Connection{}
		for _, c := range t.handshakeByPid {
			ports = append(ports, int(c.remotePort))
			byPort[int(c.remotePort)] = c
		}
		sort.Ints(ports)
		for _, p := range ports {
			c := byPort[p]
			out += fmt.Sprintf("\n  node %d conn->%d gen=%d status=%d out[prefix=%d next=%d q=%d timeouted=%d nonTimeouted=%d notSended=%d chunkToSend=%d] in[prefix=%d next=%d] acks[prefix=%d holes=%v] mem=%d waiters=%d",
				tid, p, c.generation, c.status, c.outgoing.ackSeqNoPrefix, c.outgoing.nextSeqNo, c.outgoing.messageQueue.Len(), c.outgoing.timeoutedSeqNum, c.outgoing.nonTimeoutedSeqNum, c.outgoing.notSendedSeqNum, c.outgoing.chunkToSendSeqNum, c.incoming.ackPrefix, c.incoming.nextSeqNo, c.acks.ackPrefix, c.acks.HaveHoles(), t.acquiredMemory, t.memoryWaiters.Len())
		}
	}
	return out
}

func (r *udpRun) settleRound(round int) {
	r.logf("settle round %d", round)
	for tid := 0; tid < r.sc.Nodes; tid++ {
		for n := r.fctx.ts[tid].resendRequestTimers.Len(); n > 0 && len(r.viol) == 0; n-- {
			r.guarded("settle rr timer", func() { r.fireResendRequest(tid) })
		}
	}
	r.writeAll()
	r.deliverAll()
	for i := 0; i < 3; i++ {
		for tid := 0; tid < r.sc.Nodes; tid++ {
			for n := r.fctx.ts[tid].resendTimers.Len(); n > 0 && len(r.viol) == 0; n-- {
				r.guarded("settle resend timer", func() { r.fireResend(tid) })
			}
		}
		r.writeAll()
	}
	r.deliverAll()
	for tid := 0; tid < r.sc.Nodes; tid++ {
		for n := r.fctx.ts[tid].ackTimers.Len(); n > 0 && len(r.viol) == 0; n-- {
			r.guarded("settle ack timer", func() { r.fireAck(tid) })
		}
	}
	r.writeAll()
	r.deliverAll()
	r.writeAll()
	r.deliverAll()
	time.Sleep(50 * time.Millisecond)
}

// settle: faults off; rounds of "timers -> write -> deliver". Bounded liveness is a *total* bound on
// rounds until every submitted message has been delivered (no-restart configurations). What the
// property promises afterwards concerns the receiving side: exactly-once delivery, incoming
// message memory fully released. It does not promise that the sender has learnt of every
// acknowledgement, so that is not required (the transport suppresses an empty acknowledgement when
// a datagram went out since the ack timer was armed; the sender then waits for the next traffic).
func (r *udpRun) settle() {
	for r.next < len(r.sc.Messages) && len(r.viol) == 0 {
		r.guarded("submit", func() { r.submit() })
	}
	bound := 64 + 8*len(r.sc.Messages)
	round := 0
	norestart := r.sc.Mode == "norestart"
	for ; round < bound && len(r.viol) == 0; round++ {
		if norestart && r.undelivered() == 0 && r.quiet() {
			break
		}
		if !norestart && round >= 8 && r.quiet() {
			break
		}
		r.settleRound(round)
	}
	r.stats["settle.rounds"] += round
	if len(r.viol) > 0 {
		return
	}
	if norestart {
		if und := r.undelivered(); und > 0 {
			r.fail("C36/not-delivered", fmt.Sprintf("after %d fault-free settle rounds %d of %d submitted messages are still undelivered:%s", round, und, len(r.sent), r.describe()))
			return
		}
		// two more rounds: late duplicates would show up here
		for i := 0; i < 2 && len(r.viol) == 0; i++ {
			r.settleRound(round + i)
		}
		if len(r.viol) > 0 {
			return
		}
		for _, m := range r.sent {
			if m.delivered != 1 {
				r.fail("C36/not-exactly-once", fmt.Sprintf("message serial %x %d->%d delivered %d times", m.serial, m.msg.Src, m.msg.Dst, m.delivered))
				return
			}
		}
	} else if !r.quiet() {
		r.stats["probe.restart_run_not_quiescent"]++
		return
	}
	for tid := 0; tid < r.sc.Nodes; tid++ {
		t := r.fctx.ts[tid]
		// What must be zero: memory the transport still accounts for that no live connection can ever
		// use or give back. Without restarts every message was delivered, so that is all of it. Under
		// restarts a live connection may still legitimately wait for the rest of a message whose sender
		// dropped it on its generation bump; that part (the harness's shadow account) is excluded.
		leaked := t.acquiredMemory
		if !norestart {
			for _, m := range r.memSnap[tid] {
				leaked -= m.held
			}
		}
		if leaked != 0 {
			why := "cause unknown"
			if leaked == r.gapLeak[tid] {
				why = "exactly the bytes reserved for stream gaps by connections that were reset (generation bump) before the gap was filled — the defect repaired by the fix: commit listed in known_findings.json has returned"
			}
			r.fail("C36/memory-not-released", fmt.Sprintf("node %d: %d bytes of incoming message memory are accounted for but belong to no live connection after the network settled (%s):%s", tid, leaked, why, r.describe()))
			return
		}
		if norestart && t.memoryWaiters.Len() != 0 {
			r.fail("C36/memory-not-released", fmt.Sprintf("node %d still has %d memory waiters after the network settled", tid, t.memoryWaiters.Len()))
			return
		}
	}
	if norestart && len(r.rcvBufs) != 0 {
		r.fail("C36/allocator-unbalanced", fmt.Sprintf("%d incoming message buffers obtained from the allocator were neither delivered nor released after the network settled", len(r.rcvBufs)))
	}
	r.stats["probe.settled_and_balanced"]++
}

func (udpEngine) Exec(t *testing.T, raw json.RawMessage, tape *vrt.Tape, keepLog bool) (out vrt.RunOut) {
	var sc udpScenario
	if err := json.Unmarshal(raw, &sc); err != nil {
		out.Violations = []vrt.Violation{{Class: "machinery", Msg: err.Error()}}
		return
	}
	h := sha256.New()
	r := &udpRun{sc: sc, tape: tape, bySer: map[uint32]*sentMsg{}, corrupted: map[*byte]int{}, origSum: map[*byte][32]byte{}, track: map[*Connection]*connTrack{},
		refAcks: map[*Connection]*refSet{}, rcvBufs: map[*[]byte]bool{}, logH: h, keepLog: keepLog, stats: map[string]int{}}
	if sc.Mode == "acks" {
		return execAcks(r, sc)
	}
	cryptotest.SetGlobalRandom(t, uint64(sc.CryptoSeed))
	savedChunk := MaxChunkSize
	defer func() { MaxChunkSize = savedChunk }()
	var simTime time.Duration
	func() {
		defer func() {
			if p := recover(); p != nil {
				r.viol = append(r.viol, vrt.Violation{Class: "machinery", Msg: fmt.Sprint("harness panic: ", p)})
			}
		}()
		synctest.Test(t, func(t *testing.T) {
			r.start = time.Now()
			r.setup()
			for r.step = 0; r.step < sc.Steps && len(r.viol) == 0; r.step++ {
				r.randomEvent()
			}
			r.logf("settle")
			if len(r.viol) == 0 {
				r.settle()
			}
			for _, tr := range r.fctx.ts {
				_ = tr.Close()
			}
			simTime = time.Since(r.start)
		})
	}()
	out.Outcome = "done"
	if len(r.viol) > 0 {
		out.Outcome = "violation"
	}
	out.Violations = r.viol
	out.Steps = r.step
	out.SimTime = simTime
	out.LogHash = hex.EncodeToString(h.Sum(nil))
	out.SchedSig = out.LogHash[:16]
	out.Log = r.lines
	out.Stats = r.stats
	out.Progress = r.delivered > 0 || len(sc.Messages) == 0
	faults := 0
	for k, v := range r.stats {
		if len(k) > 6 && k[:6] == "fault." {
			faults += v
		}
	}
	out.Nontrivial = faults > 0
	out.Sample = map[string]any{"scenario": sc, "events": r.step, "delivered": r.delivered, "faults_fired": faults}
	return out
}

// ---------------------------------------------------------------------------------------------
// C37 reference: a sorted list of disjoint, non-adjacent closed intervals over uint64 (no wrap).

type refSet struct{ iv [][2]uint64 }

func (s *refSet) add(from32, to32 uint32) {
	from, to := uint64(from32), uint64(to32)
	if to < from {
		return
	}
	var out [][2]uint64
	placed := false
	for _, x := range s.iv {
		switch {
		case x[1]+1 < from:
			out = append(out, x)
		case to+1 < x[0]:
			if !placed {
				out = append(out, [2]uint64{from, to})
				placed = true
			}
			out = append(out, x)
		default:
			if x[0] < from {
				from = x[0]
			}
			if x[1] > to {
				to = x[1]
			}
		}
	}
	if !placed {
		out = append(out, [2]uint64{from, to})
	}
	s.iv = out
}

// firstMember returns the smallest member of the set in [from,to], if any.
func (s *refSet) firstMember(from, to uint64) (uint64, bool) {
	for _, x := range s.iv {
		if x[1] < from || x[0] > to {
			continue
		}
		if x[0] > from {
			return x[0], true
		}
		return from, true
	}
	return 0, false
}

// firstNonMember returns the smallest number in [from,to] that is not in the set, if any.
func (s *refSet) firstNonMember(from, to uint64) (uint64, bool) {
	cur := from
	for _, x := range s.iv {
		if x[1] < cur {
			continue
		}
		if x[0] > cur {
			break
		}
		cur = x[1] + 1
		if cur > to {
			return 0, false
		}
	}
	if cur > to {
		return 0, false
	}
	return cur, true
}

func (s *refSet) has(n uint64) bool {
	for _, x := range s.iv {
		if x[0] <= n && n <= x[1] {
			return true
		}
	}
	return false
}

// checkAcksAgainst compares the implementation's representation with the reference and checks the
// headers built from it. Returns "" if everything agrees.
func checkAcksAgainst(a *AcksToSend, ref *refSet) string {
	if ref == nil {
		ref = &refSet{}
	}
	// shape: prefix [0,p) + strictly increasing, disjoint, non-adjacent ranges, all above p
	var impl [][2]uint64
	if a.ackPrefix > 0 {
		impl = append(impl, [2]uint64{0, uint64(a.ackPrefix) - 1})
	}
	last := uint64(a.ackPrefix) // first number not covered so far
	n := 0
	for rg := a.firstRange; rg != nil; rg = rg.next {
		n++
		if n > 1<<20 {
			return "range list is cyclic"
		}
		if rg.ackFrom > rg.ackTo {
			return fmt.Sprintf("range [%d..%d] is empty/inverted", rg.ackFrom, rg.ackTo)
		}
		if uint64(rg.ackFrom) <= last {
			return fmt.Sprintf("range [%d..%d] overlaps or is adjacent to what precedes it (prefix/previous range ends before %d)", rg.ackFrom, rg.ackTo, last)
		}
		impl = append(impl, [2]uint64{uint64(rg.ackFrom), uint64(rg.ackTo)})
		last = uint64(rg.ackTo) + 1
	}
	// set equality with the union of recorded ranges. The prefix is "everything below p": recorded
	// ranges that start at or below the prefix extend it, so the reference must be compared as the
	// closure "a recorded range starting <= current prefix joins the prefix" — which is exactly union
	// semantics when 0 is treated as always acknowledged-before (prefix 0 = nothing).
	want := refNormalised(ref)
	if len(impl) != len(want) {
		return fmt.Sprintf("represents %v, recorded ranges give %v", impl, want)
	}
	for i := range impl {
		if impl[i] != want[i] {
			return fmt.Sprintf("represents %v, recorded ranges give %v", impl, want)
		}
	}
	// BuildAck acknowledges only members
	var enc tlnetUdpPacket.EncHeader
	a.BuildAck(&enc)
	if enc.IsSetPacketAckPrefix() {
		if x, bad := ref.firstNonMember(0, uint64(enc.PacketAckPrefix)); bad {
			return fmt.Sprintf("BuildAck prefix %d acknowledges unrecorded number %d", enc.PacketAckPrefix, x)
		}
	}
	if enc.IsSetPacketAckFrom() || enc.IsSetPacketAckTo() {
		if enc.PacketAckFrom > enc.PacketAckTo {
			return fmt.Sprintf("BuildAck produced inverted range [%d..%d]", enc.PacketAckFrom, enc.PacketAckTo)
		}
		if x, bad := ref.firstNonMember(uint64(enc.PacketAckFrom), uint64(enc.PacketAckTo)); bad {
			return fmt.Sprintf("BuildAck range [%d..%d] acknowledges unrecorded number %d", enc.PacketAckFrom, enc.PacketAckTo, x)
		}
	}
	if enc.IsSetPacketAckSet() {
		for _, x := range enc.PacketAckSet {
			if !ref.has(uint64(x)) {
				return fmt.Sprintf("BuildAck set acknowledges unrecorded number %d", x)
			}
		}
	}
	// BuildNegativeAck requests only non-members
	var req tlnetUdpPacket.ResendRequest
	a.BuildNegativeAck(&req)
	for _, rr := range req.Ranges {
		if rr.PacketNumFrom > rr.PacketNumTo {
			return fmt.Sprintf("BuildNegativeAck produced inverted range [%d..%d]", rr.PacketNumFrom, rr.PacketNumTo)
		}
		if x, bad := ref.firstMember(uint64(rr.PacketNumFrom), uint64(rr.PacketNumTo)); bad {
			return fmt.Sprintf("BuildNegativeAck requests [%d..%d] which contains recorded number %d", rr.PacketNumFrom, rr.PacketNumTo, x)
		}
	}
	return ""
}

// refNormalised returns the reference intervals in the implementation's canonical form: an
// interval that starts at 0 is the prefix; everything else stays as it is.
func refNormalised(ref *refSet) [][2]uint64 {
	return ref.iv
}

// execAcks: direct drive of a bare AcksToSend (no faults or schedule in this part; labelled so).
func execAcks(r *udpRun, sc udpScenario) (out vrt.RunOut) {
	a := &AcksToSend{}
	ref := &refSet{}
	for i, rg := range sc.Acks.Ranges {
		from, to := sc.Acks.Base+rg[0], sc.Acks.Base+rg[1]
		func() {
			defer func() {
				if p := recover(); p != nil {
					r.fail("C37/panic", fmt.Sprintf("AddAckRange(%d,%d): %v", from, to, p))
				}
			}()
			a.AddAckRange(from, to)
		}()
		ref.add(from, to)
		r.step = i
		r.logf("add [%d..%d]", from, to)
		if len(r.viol) > 0 {
			break
		}
		if msg := checkAcksAgainst(a, ref); msg != "" {
			r.fail("C37/ack-set-mismatch", fmt.Sprintf("after AddAckRange(%d,%d) (#%d): %s", from, to, i, msg))
			break
		}
		a.checkInvariantsCommon(func(e string) { r.fail("C37/shape", e) })
	}
	h := r.logH.(interface{ Sum([]byte) []byte })
	out.Outcome = "done"
	if len(r.viol) > 0 {
		out.Outcome = "violation"
	}
	out.Violations = r.viol
	out.Steps = len(sc.Acks.Ranges)
	out.LogHash = hex.EncodeToString(h.Sum(nil))
	out.SchedSig = out.LogHash[:16]
	out.Log = r.lines
	out.Stats = map[string]int{"probe.c37_direct_ranges": len(sc.Acks.Ranges)}
	if a.HaveHoles() {
		out.Stats["probe.c37_direct_ended_with_holes"] = 1
	}
	if sc.Acks.Base > 1<<31 {
		out.Stats["probe.c37_direct_near_2^32"] = 1
	}
	out.Progress = true
	out.Nontrivial = len(ref.iv) > 1 || len(sc.Acks.Ranges) > 2
	out.Sample = map[string]any{"scenario": sc.Acks, "final_reference_set": ref.iv}
	return out
}

func TestVerifWorker(t *testing.T) { vrt.WorkerMain(t, udpEngine{}) }
