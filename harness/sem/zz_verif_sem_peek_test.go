package semaphore

// White-box view of the implementation's private state, kept apart from the harness proper: if the
// representation changes (another queue type, other field names) this file stops compiling and tlsim builds
// the worker with blackbox/zz_verif_sem_peek_test.go instead, so that the oracles which do not need it
// (linearizability against the reference model, black-box liveness, panics, the race detector) keep deciding.
// Called from the scheduler goroutine only: never blocks (TryLock).

const semWhiteBox = true

// semPeek returns size, cur, the weight wanted by the first queued waiter (-1: none) and the queue length.
func semPeek(s *Weighted) (size, cur, frontN int64, nw int, ok bool) {
	if !s.mu.TryLock() {
		return 0, 0, -1, 0, false
	}
	size, cur, frontN = s.size, s.cur, -1
	if f := s.waiters.Front(); f != nil {
		frontN = f.Value.(waiter).n
	}
	nw = s.waiters.Len()
	s.mu.Unlock()
	return size, cur, frontN, nw, true
}
