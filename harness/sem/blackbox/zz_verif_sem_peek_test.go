package semaphore

// Black-box replacement of ../zz_verif_sem_peek_test.go (see there): nothing of the implementation's private
// state is read.

const semWhiteBox = false

func semPeek(s *Weighted) (size, cur, frontN int64, nw int, ok bool) { return 0, 0, -1, 0, false }
