package semaphore

// Engine `sem` (DESIGN.md §3.1): property C42. This file is mapped into the package by a build
// overlay; the package's own source is rewritten by /verif/sim/instrument (config "sem") or left
// untouched (config "sem-race").

import (
	"context"
	"encoding/json"
	"fmt"
	"math"
	"math/rand/v2"
	"runtime"
	"sync"
	"sync/atomic"
	"testing"
	"testing/synctest"
	"time"

	"github.com/VKCOM/tl/internal/zzverif/vrt"
	"github.com/anishathalye/porcupine"
)

type semOp struct {
	Kind       string `json:"k"` // acquire try release release_all force setsize observe
	N          int64  `json:"n,omitempty"`
	DeadlineUs int64  `json:"dl,omitempty"`     // >0: context.WithTimeout in simulated µs
	CancelAt   int    `json:"cancel,omitempty"` // >0: a canceller goroutine cancels after that many of its own yields
	Idx        int    `json:"i,omitempty"`      // which held entry to release
}

type semScenario struct {
	Mode       string    `json:"mode"` // sim | race
	Size       int64     `json:"size"`
	Clients    [][]semOp `json:"clients"`
	Strategy   int       `json:"strategy"`
	TimeAdvPct int       `json:"time_adv_pct"`
	PCTChanges int       `json:"pct_changes"`
	YieldUnlock bool     `json:"yield_unlock,omitempty"` // unlocks are scheduling points as well
}

type semEngine struct{}

func (semEngine) Gen(seed uint64, params map[string]any) json.RawMessage {
	r := rand.New(rand.NewPCG(seed, 42))
	sc := semScenario{Mode: "sim"}
	if m, ok := params["mode"].(string); ok {
		sc.Mode = m
	}
	sc.Size = int64(r.IntN(7))
	// one scenario in five uses an "unlimited" semaphore and weights near MaxInt64 (the repository itself
	// does: NewWeighted(math.MaxInt64) + WaitEmpty = Acquire(size)), where cur+n overflows int64
	huge := r.IntN(5) == 0
	if huge {
		sc.Size = math.MaxInt64 - int64(r.IntN(3))
	}
	nc := 2 + r.IntN(4)
	sc.Strategy = r.IntN(vrt.NumStrategies)
	sc.TimeAdvPct = []int{0, 0, 2, 10, 30}[r.IntN(5)]
	sc.PCTChanges = 1 + r.IntN(3)
	sc.YieldUnlock = r.IntN(2) == 0
	total := 0
	for c := 0; c < nc; c++ {
		nops := 1 + r.IntN(8)
		var ops []semOp
		for i := 0; i < nops && total < 40; i++ {
			total++
			var op semOp
			w := r.IntN(100)
			var n int64
			if huge {
				n = []int64{0, 1, 2, 3, sc.Size, sc.Size - 1, math.MaxInt64, math.MaxInt64 - 1, 1 << 62}[r.IntN(9)]
			} else {
				n = int64(r.IntN(int(sc.Size) + 2))
			}
			switch {
			case w < 38:
				op = semOp{Kind: "acquire", N: n}
				switch r.IntN(4) {
				case 0:
					op.DeadlineUs = int64(1) << uint(r.IntN(21)) // 1µs .. ~1s
				case 1:
					op.CancelAt = 1 + r.IntN(12)
				}
			case w < 52:
				op = semOp{Kind: "try", N: n}
			case w < 72:
				op = semOp{Kind: "release", Idx: r.IntN(4)}
			case w < 77:
				op = semOp{Kind: "release_all"}
			case w < 83:
				op = semOp{Kind: "force", N: int64(r.IntN(4))}
				if huge { // the total weight must stay representable: forcing on top of ~MaxInt64 held is outside any contract
					op = semOp{Kind: "observe"}
				}
			case w < 93:
				op = semOp{Kind: "setsize", N: int64(r.IntN(8))}
				if huge && r.IntN(2) == 0 {
					op.N = math.MaxInt64 - int64(r.IntN(2))
				}
			default:
				op = semOp{Kind: "observe"}
			}
			ops = append(ops, op)
		}
		sc.Clients = append(sc.Clients, ops)
	}
	b, _ := json.Marshal(sc)
	return b
}

func (semEngine) Shrink(raw json.RawMessage) []json.RawMessage {
	var sc semScenario
	if json.Unmarshal(raw, &sc) != nil {
		return nil
	}
	var out []json.RawMessage
	emit := func(f func(c *semScenario)) {
		var cp semScenario
		b, _ := json.Marshal(sc)
		_ = json.Unmarshal(b, &cp)
		f(&cp)
		nb, _ := json.Marshal(cp)
		if string(nb) != string(b) {
			out = append(out, nb)
		}
	}
	for ci := range sc.Clients {
		ci := ci
		if len(sc.Clients) > 1 {
			emit(func(c *semScenario) { c.Clients = append(c.Clients[:ci], c.Clients[ci+1:]...) })
		}
	}
	for ci := range sc.Clients {
		for oi := range sc.Clients[ci] {
			ci, oi := ci, oi
			emit(func(c *semScenario) { c.Clients[ci] = append(c.Clients[ci][:oi], c.Clients[ci][oi+1:]...) })
		}
	}
	for ci := range sc.Clients {
		for oi, op := range sc.Clients[ci] {
			ci, oi := ci, oi
			if op.DeadlineUs > 0 || op.CancelAt > 0 {
				emit(func(c *semScenario) { c.Clients[ci][oi].DeadlineUs = 0; c.Clients[ci][oi].CancelAt = 0 })
			}
			if op.CancelAt > 1 {
				emit(func(c *semScenario) { c.Clients[ci][oi].CancelAt = 1 })
			}
			if op.N > 0 && op.N < 64 && op.Kind != "setsize" {
				emit(func(c *semScenario) { c.Clients[ci][oi].N-- })
			}
		}
	}
	if sc.TimeAdvPct != 0 {
		emit(func(c *semScenario) { c.TimeAdvPct = 0 })
	}
	if sc.Strategy != 0 {
		emit(func(c *semScenario) { c.Strategy = 0 })
	}
	return out
}

// ---- history + reference model ----

type semIn struct {
	Kind string
	N    int64
}
type semOut struct {
	OK        bool // acquire: err==nil; try: result
	Cur, Size int64
}

type semState struct{ size, cur int64 }

var semModel = porcupine.Model{
	Init: func() interface{} { return semState{} },
	Step: func(state, input, output interface{}) (bool, interface{}) {
		st := state.(semState)
		in := input.(semIn)
		out := output.(semOut)
		switch in.Kind {
		case "init":
			return true, semState{size: in.N}
		case "acquire", "try":
			if !out.OK {
				return true, st // failing is always permitted and has no effect
			}
			if in.N > st.size-st.cur { // (size-cur cannot overflow: both are >= 0 or cur exceeds size by a small forced amount)
				return false, st
			}
			st.cur += in.N
			return true, st
		case "release":
			st.cur -= in.N
			return st.cur >= 0, st
		case "force":
			st.cur += in.N
			return true, st
		case "setsize":
			st.size = in.N
			return true, st
		case "observe":
			return out.Cur == st.cur && out.Size == st.size, st
		}
		return false, st
	},
	DescribeOperation: func(input, output interface{}) string {
		return fmt.Sprintf("%+v -> %+v", input, output)
	},
}

type pendingAcq struct {
	client int
	n      int64
	// An Acquire(n) that finds n > size inside its critical section is documented as "doomed": it is
	// never queued and only waits for its context. The harness cannot see that decision, so it keeps a
	// sound lower bound of every size the call may have seen: base (size read before the call, and
	// every SetSize not yet returned at that moment) and every SetSize issued afterwards (from).
	base   int64
	from   int
	cancel context.CancelFunc
	hasDL  bool
}

type setSizeRec struct {
	n        int64
	returned bool
}

type semRun struct {
	sem     *Weighted
	mu      sync.Mutex // protects history/pending in race mode; uncontended in sim mode
	stamp   atomic.Int64
	ops     []porcupine.Operation
	pending map[int]*pendingAcq // by client
	setsizes []*setSizeRec
	probes  map[string]int
	done    int
	opsDone int
}

func (r *semRun) record(client int, in semIn, call int64, out semOut) {
	ret := r.stamp.Add(1)
	r.mu.Lock()
	r.ops = append(r.ops, porcupine.Operation{ClientId: client, Input: in, Call: call, Output: out, Return: ret})
	r.opsDone++
	r.mu.Unlock()
}

func (r *semRun) probe(name string) {
	r.mu.Lock()
	r.probes[name]++
	r.mu.Unlock()
}

func (r *semRun) client(id int, ops []semOp, spawn func(name string, f func())) {
	var held []int64
	for _, op := range ops {
		switch op.Kind {
		case "acquire":
			ctx, cancel := context.WithCancel(context.Background())
			if op.DeadlineUs > 0 {
				ctx, cancel = context.WithTimeout(context.Background(), time.Duration(op.DeadlineUs)*time.Microsecond)
			}
			p := &pendingAcq{client: id, n: op.N, cancel: cancel, hasDL: op.DeadlineUs > 0, base: 1 << 60}
			r.mu.Lock()
			for _, ss := range r.setsizes {
				if !ss.returned && ss.n < p.base {
					p.base = ss.n
				}
			}
			p.from = len(r.setsizes)
			r.mu.Unlock()
			_, size := r.sem.Observe()
			if size < p.base {
				p.base = size
			}
			r.mu.Lock()
			r.pending[id] = p
			r.mu.Unlock()
			if op.CancelAt > 0 {
				k := op.CancelAt
				spawn(fmt.Sprintf("canceller%d", id), func() {
					for i := 0; i < k; i++ {
						vrt.Yield("canceller")
						if !vrt.Active() {
							time.Sleep(time.Microsecond)
						}
					}
					cancel()
				})
			}
			call := r.stamp.Add(1)
			err := r.sem.Acquire(ctx, op.N)
			r.mu.Lock()
			delete(r.pending, id)
			r.mu.Unlock()
			r.record(id, semIn{"acquire", op.N}, call, semOut{OK: err == nil})
			if err == nil {
				held = append(held, op.N)
				if ctx.Err() != nil {
					r.probe("probe.acquire_ok_after_ctx_done")
				}
			} else {
				r.probe("probe.acquire_ctx_error")
				if err == context.DeadlineExceeded {
					r.probe("fault.deadline_expired_in_acquire")
				} else {
					r.probe("fault.cancelled_in_acquire")
				}
			}
			cancel()
		case "try":
			call := r.stamp.Add(1)
			ok := r.sem.TryAcquire(op.N)
			r.record(id, semIn{"try", op.N}, call, semOut{OK: ok})
			if ok {
				held = append(held, op.N)
			} else {
				r.probe("probe.try_false")
			}
		case "release":
			if len(held) == 0 {
				continue
			}
			i := op.Idx % len(held)
			n := held[i]
			held = append(held[:i], held[i+1:]...)
			call := r.stamp.Add(1)
			r.sem.Release(n)
			r.record(id, semIn{"release", n}, call, semOut{})
		case "release_all":
			var n int64
			for _, h := range held {
				n += h
			}
			if len(held) == 0 {
				continue
			}
			held = nil
			call := r.stamp.Add(1)
			r.sem.Release(n)
			r.record(id, semIn{"release", n}, call, semOut{})
		case "force":
			call := r.stamp.Add(1)
			r.sem.ForceAcquire(op.N)
			r.probe("fault.forced_acquire")
			r.record(id, semIn{"force", op.N}, call, semOut{})
			held = append(held, op.N)
		case "setsize":
			rec := &setSizeRec{n: op.N}
			r.probe("fault.resize")
			r.mu.Lock()
			r.setsizes = append(r.setsizes, rec)
			r.mu.Unlock()
			call := r.stamp.Add(1)
			r.sem.SetSize(op.N)
			r.record(id, semIn{"setsize", op.N}, call, semOut{})
			r.mu.Lock()
			rec.returned = true
			r.mu.Unlock()
		case "observe":
			call := r.stamp.Add(1)
			cur, size := r.sem.Observe()
			r.record(id, semIn{"observe", 0}, call, semOut{Cur: cur, Size: size})
		}
	}
	// cleanup: release everything still held, so that capacity returns for remaining waiters
	for _, n := range held {
		call := r.stamp.Add(1)
		r.sem.Release(n)
		r.record(id, semIn{"release", n}, call, semOut{})
	}
	r.mu.Lock()
	r.done++
	r.mu.Unlock()
}

// checkLiveness runs when the whole system is blocked with no timer pending: every remaining
// Acquire is deadline-free (or its deadline has passed). Returns a violation message or "".
func (r *semRun) checkLiveness() string {
	size, cur, frontN, nw, ok := semPeek(r.sem)
	if !ok {
		if semWhiteBox {
			return "" // someone is inside the mutex
		}
		// black-box build (the private representation changed): the public counters; the system is quiescent, every
		// goroutine is parked outside the semaphore's critical sections
		cur, size = r.sem.Observe()
	}
	if ok && frontN >= 0 && frontN <= size-cur {
		return fmt.Sprintf("system is quiescent, first waiter wants %d, size=%d cur=%d (%d waiters): capacity allows it but it was not admitted", frontN, size, cur, nw)
	}
	// black-box cross-check (no knowledge of the queue): if every pending non-doomed request fits, one of them is first
	r.mu.Lock()
	defer r.mu.Unlock()
	anyPending, allFit := false, true
	for _, p := range r.pending {
		anyPending = true
		minSize := p.base
		for _, ss := range r.setsizes[p.from:] {
			if ss.n < minSize {
				minSize = ss.n
			}
		}
		if p.n > minSize { // possibly a documented "doomed" call: not a waiter in the property's sense
			allFit = false
		}
		if p.n > size-cur {
			allFit = false
		}
	}
	if anyPending && allFit {
		return fmt.Sprintf("system is quiescent, size=%d cur=%d, every pending acquire was certainly queued and fits, but none was admitted", size, cur)
	}
	return ""
}

func (r *semRun) cancelPending() int {
	r.mu.Lock()
	defer r.mu.Unlock()
	n := 0
	for _, p := range r.pending {
		p.cancel()
		n++
	}
	return n
}

func (r *semRun) checkHistory() (porcupine.CheckResult, string) {
	ops := append([]porcupine.Operation{{ClientId: 99, Input: semIn{"init", r.sem0()}, Call: -2, Output: semOut{}, Return: -1}}, r.ops...)
	res, info := porcupine.CheckOperationsVerbose(semModel, ops, 30*time.Second)
	msg := ""
	if res == porcupine.Illegal {
		for _, o := range r.ops {
			msg += fmt.Sprintf("  c%d [%d,%d] %+v -> %+v\n", o.ClientId, o.Call, o.Return, o.Input, o.Output)
		}
		_ = info
	}
	return res, msg
}

var semInitSize int64

func (r *semRun) sem0() int64 { return semInitSize }

func (semEngine) Exec(t *testing.T, raw json.RawMessage, tape *vrt.Tape, keepLog bool) vrt.RunOut {
	var sc semScenario
	if err := json.Unmarshal(raw, &sc); err != nil {
		return vrt.RunOut{Result: vrt.Result{Outcome: "violation", Violations: []vrt.Violation{{Class: "machinery", Msg: err.Error()}}}}
	}
	if sc.Mode == "race" {
		return semExecRace(t, sc)
	}
	run := &semRun{pending: map[int]*pendingAcq{}, probes: map[string]int{}}
	semInitSize = sc.Size
	cfg := vrt.Config{Strategy: sc.Strategy, TimeAdvPct: sc.TimeAdvPct, PCTChanges: sc.PCTChanges, PCTSpan: 150,
		MaxSteps: 20000, Horizon: time.Hour, KeepLog: keepLog, YieldAfterUnlock: sc.YieldUnlock}
	cfg.OnStep = func(s *vrt.Sim) {
		if run.sem == nil {
			return
		}
		if _, cur, _, _, ok := semPeek(run.sem); ok {
			if cur < 0 {
				s.Fail("C42/negative-cur", fmt.Sprintf("cur=%d", cur))
			}
		}
	}
	cfg.OnIdle = func(s *vrt.Sim) bool {
		if msg := run.checkLiveness(); msg != "" {
			s.Fail("C42/stuck-first-waiter", msg)
			return false
		}
		s.Count("probe.idle_with_pending_waiters")
		if run.cancelPending() == 0 {
			s.Fail("machinery", "idle with nothing pending:"+s.Describe())
			return false
		}
		return true
	}
	res := vrt.Run(t, cfg, tape, func(s *vrt.Sim) {
		run.sem = NewWeighted(sc.Size)
		for i, ops := range sc.Clients {
			i, ops := i, ops
			vrt.Go(fmt.Sprintf("client%d", i), func() { run.client(i, ops, vrt.Go) })
		}
	})
	out := vrt.RunOut{Result: res, Probes: run.probes}
	out.Progress = run.opsDone > 0
	out.Nontrivial = res.Stats["sched.contended_steps"] > 0
	if res.Outcome == "budget" || res.Outcome == "idle" {
		out.Violations = append(out.Violations, vrt.Violation{Class: "machinery", Msg: "run ended with outcome " + res.Outcome})
	}
	if len(out.Violations) == 0 {
		cr, msg := run.checkHistory()
		switch cr {
		case porcupine.Illegal:
			out.Violations = append(out.Violations, vrt.Violation{Class: "C42/over-admit-or-nonlinearizable", Msg: "history is not linearizable against the (size,cur) reference model:\n" + msg, Step: res.Steps})
			out.Outcome = "violation"
		case porcupine.Unknown:
			out.Probes["porcupine.unknown"]++
		}
	}
	out.Sample = map[string]any{"scenario": sc, "history_len": len(run.ops), "steps": res.Steps}
	return out
}

// semExecRace: same scenarios, un-rewritten package, runtime scheduling inside the bubble, for -race.
func semExecRace(t *testing.T, sc semScenario) (out vrt.RunOut) {
	run := &semRun{pending: map[int]*pendingAcq{}, probes: map[string]int{}}
	semInitSize = sc.Size
	out.NoDetCheck = true
	out.Outcome = "done"
	var viol []vrt.Violation
	func() {
		defer func() {
			if r := recover(); r != nil {
				buf := make([]byte, 1<<16)
				buf = buf[:runtime.Stack(buf, true)]
				viol = append(viol, vrt.Violation{Class: "panic", Msg: fmt.Sprint(r) + "\n" + string(buf)})
			}
		}()
		synctest.Test(t, func(t *testing.T) {
			run.sem = NewWeighted(sc.Size)
			for i, ops := range sc.Clients {
				i, ops := i, ops
				go run.client(i, ops, func(name string, f func()) { go f() })
			}
			for round := 0; round < 1000; round++ {
				synctest.Wait()
				run.mu.Lock()
				done := run.done
				run.mu.Unlock()
				if done == len(sc.Clients) {
					time.Sleep(time.Second) // let canceller goroutines finish: the clock stops when the root returns
					return
				}
				time.Sleep(5 * time.Second) // beyond every generated deadline
				synctest.Wait()
				run.mu.Lock()
				done = run.done
				run.mu.Unlock()
				if done == len(sc.Clients) {
					time.Sleep(time.Second)
					return
				}
				if msg := run.checkLiveness(); msg != "" {
					viol = append(viol, vrt.Violation{Class: "C42/stuck-first-waiter", Msg: msg})
					run.cancelPending()
					continue
				}
				run.cancelPending()
			}
			viol = append(viol, vrt.Violation{Class: "machinery", Msg: "race-mode run did not finish"})
		})
	}()
	out.Progress = run.opsDone > 0
	out.Nontrivial = true
	out.Sig = vrt.HashJSON(sc)
	out.Probes = run.probes
	if len(viol) == 0 {
		cr, msg := run.checkHistory()
		if cr == porcupine.Illegal {
			viol = append(viol, vrt.Violation{Class: "C42/over-admit-or-nonlinearizable", Msg: msg})
		}
	}
	out.Violations = viol
	if len(viol) > 0 {
		out.Outcome = "violation"
	}
	out.Sample = map[string]any{"scenario": sc, "history_len": len(run.ops)}
	return out
}

func TestVerifWorker(t *testing.T) { vrt.WorkerMain(t, semEngine{}) }
