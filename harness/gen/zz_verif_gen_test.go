package main

// Engine `gen` (DESIGN.md §3.4): properties C15 (determinism) and C16 (output directory). This
// file is mapped by a build overlay into cmd/tl2gen and cmd/tlgen (package main), next to a small
// adapter that runs what main() runs. The generator packages are source-rewritten: map ranges,
// file operations, runtime.NumCPU and the writer pool's goroutines belong to the simulator.
//
// One generation = one OS process, as in real use: the worker re-executes this test binary with
// VERIF_GEN_JOB pointing at a job file; the child loads the simulated disk left by the previous
// generation, generates under the token scheduler, and saves disk, operation log and result.

import (
	"bytes"
	"crypto/sha256"
	"encoding/hex"
	"encoding/json"
	"fmt"
	"math/rand/v2"
	"os"
	"os/exec"
	"path/filepath"
	"sort"
	"strings"
	"testing"
	"time"

	"github.com/VKCOM/tl/internal/zzverif/vrt"
)

const simRoot = "/simfs"

type genJob struct {
	Args      []string      `json:"args"`
	MapPolicy int           `json:"map_policy"`
	NumCPU    int           `json:"num_cpu"`
	Strategy  int           `json:"strategy"`
	TapeSeed  uint64        `json:"tape_seed"`
	Tape      []uint32      `json:"tape,omitempty"` // explicit tape (replay of a child)
	Fault     *vrt.FSFault  `json:"fault,omitempty"`
	DiskIn    string        `json:"disk_in"`  // snapshot file ("" = empty disk)
	DiskOut   string        `json:"disk_out"` // where to save the disk afterwards
	ResultOut string        `json:"result_out"`
	Direct    *directJob    `json:"direct,omitempty"` // drive OutDir.Write alone
}

type directJob struct {
	Outdir string            `json:"outdir"`
	Files  map[string]string `json:"files"`
	Marker string            `json:"marker"`
}

type genResult struct {
	Err       string      `json:"err"`
	Outcome   string      `json:"outcome"`
	Ops       []vrt.FSOp  `json:"ops"`
	Escapes   []string    `json:"escapes"`
	Steps     int         `json:"steps"`
	LogHash   string      `json:"log_hash"`
	Stats     map[string]int `json:"stats"`
	FaultFired map[string]int `json:"fault_fired"`
	TapeRec   []uint32    `json:"tape_rec,omitempty"`
	Violations []vrt.Violation `json:"violations,omitempty"`
}

// TestVerifGenChild is the per-generation process.
func TestVerifGenChild(t *testing.T) {
	jobPath := os.Getenv("VERIF_GEN_JOB")
	if jobPath == "" {
		t.Skip("not a generation child")
	}
	var job genJob
	b, err := os.ReadFile(jobPath)
	if err != nil {
		t.Fatal(err)
	}
	if err := json.Unmarshal(b, &job); err != nil {
		t.Fatal(err)
	}
	res := runGenJob(t, job)
	rb, _ := json.Marshal(res)
	if err := os.WriteFile(job.ResultOut, rb, 0o644); err != nil {
		t.Fatal(err)
	}
}

func runGenJob(t *testing.T, job genJob) genResult {
	var disk *vrt.SimFS
	if job.DiskIn != "" {
		b, err := os.ReadFile(job.DiskIn)
		if err != nil {
			t.Fatal(err)
		}
		if disk, err = vrt.LoadSimFS(b); err != nil {
			t.Fatal(err)
		}
	} else {
		disk = vrt.NewSimFS(simRoot)
	}
	disk.Fault = job.Fault
	vrt.FS = disk
	defer func() { vrt.FS = nil }()
	// silence the generator's progress output
	devnull, _ := os.OpenFile(os.DevNull, os.O_WRONLY, 0)
	savedOut := os.Stdout
	if devnull != nil && os.Getenv("VERIF_GEN_VERBOSE") == "" {
		os.Stdout = devnull
	}
	defer func() { os.Stdout = savedOut }()
	var tape *vrt.Tape
	if job.Tape != nil {
		tape = vrt.ReplayTape(job.Tape)
	} else {
		tape = vrt.NewTape(job.TapeSeed)
	}
	var genErr error
	cfg := vrt.Config{Strategy: job.Strategy, MapPolicy: job.MapPolicy, NumCPU: job.NumCPU, MaxSteps: 50_000_000, Horizon: time.Hour, PCTChanges: 3, PCTSpan: 5000}
	hung := false
	cfg.OnIdle = func(s *vrt.Sim) bool {
		if len(disk.Fired) > 0 {
			// Observed on the unchanged tree (outside the listed properties, recorded in DESIGN.md): when every
			// worker of OutDir.Write has returned with an I/O error, the feeder blocks for ever on its unbuffered
			// channel. The generation is treated as failed; the disk state is still judged.
			hung = true
			s.Stop()
			return true
		}
		s.Fail("machinery", "generator is stuck:"+s.Describe())
		return false
	}
	res := vrt.Run(t, cfg, tape, func(s *vrt.Sim) {
		defer func() {
			if r := recover(); r != nil {
				genErr = fmt.Errorf("PANIC: %v", r)
			}
		}()
		if job.Direct != nil {
			genErr = verifDirectWrite(job.Direct.Outdir, expandFiles(job.Direct.Files), job.Direct.Marker)
		} else {
			genErr = verifGenerate(job.Args)
		}
	})
	out := genResult{Outcome: res.Outcome, Ops: disk.Log, Escapes: disk.Escapes, Steps: res.Steps, LogHash: res.LogHash, Stats: res.Stats, FaultFired: disk.Fired, Violations: res.Violations}
	if genErr != nil {
		out.Err = genErr.Error()
	}
	if hung {
		out.Err = "HUNG: the generator never returned after the injected disk fault"
		out.Outcome = "done"
		out.Stats["probe.generator_hung_after_disk_fault"]++
	}
	if job.Tape == nil && len(tape.Rec) < 200000 {
		out.TapeRec = tape.Rec
	}
	if job.DiskOut != "" {
		if err := os.WriteFile(job.DiskOut, disk.Snapshot(), 0o644); err != nil {
			t.Fatal(err)
		}
	}
	return out
}

// ---------------------------------------------------------------------------------------------
// worker side

type genTriple struct {
	Name    string   `json:"name"`
	Tool    string   `json:"tool"`
	Args    []string `json:"args"`    // without outdir/outfile and inputs
	Inputs  []string `json:"inputs"`  // schema files/directories (real paths, read-through)
	Outfile string   `json:"outfile"` // single-file outputs: file name below the output directory
	Marker  string   `json:"marker"`
	NoDir   bool     `json:"no_dir"` // single-file output: no directory management
	Synth   bool     `json:"synth"`  // the schema is synthesised from (SchemaSeed, SchemaMask) of the scenario
	Base    string   `json:"base,omitempty"` // name without the (seed/mask) suffix, for counters
	SynthFiles bool  `json:"synth_files"`    // ... and laid out as one file per combinator in an input directory (more files than CPUs)
	SynthAnnotate bool `json:"synth_annotate"` // ... with custom annotations on its functions (the --annotations option)
}

// synthSchema derives a small schema from a seed: a universe of eight types with seed-chosen namespaces and names
// (so that file names of every shape occur), of which mask selects the ones present. Two masks of one seed model
// an evolving schema: types appear and disappear, the others keep their text.
func synthSchema(seed uint64, mask uint8) string { return strings.Join(synthSchemaParts(seed, mask, false), "") }

// synthSchemaParts returns the schema as a header part, one part per present type and one per function, so that
// the same schema can also be laid out as many files of one input directory.
func synthSchemaParts(seed uint64, mask uint8, annotate bool) []string {
	r := rand.New(rand.NewPCG(seed, 16))
	syl := []string{"o", "ob", "or", "op", "obj", "da", "ta", "ke", "mi", "zu", "ex", "lo", "d", "x", "h", "cpp", "go", "php"}
	nss := []string{"", "", "a", "b", "o", "ox", "obj"}
	type ty struct{ ns, name string }
	var us []ty
	seen := map[string]bool{"int": true, "string": true, "long": true, "go": true, "do": true, "or": true}
	for len(us) < 8 {
		t := ty{ns: nss[r.IntN(len(nss))]}
		for k := 1 + r.IntN(3); k > 0; k-- {
			t.name += syl[r.IntN(len(syl))]
		}
		if seen[t.name] || seen[t.ns+"."+t.name] || len(t.name) < 2 {
			continue
		}
		seen[t.ns+"."+t.name] = true
		if t.ns == "" {
			seen[t.name] = true
		}
		us = append(us, t)
	}
	full := func(t ty, upper bool) string {
		n := t.name
		if upper {
			n = strings.ToUpper(n[:1]) + n[1:]
		}
		if t.ns == "" {
			return n
		}
		return t.ns + "." + n
	}
	parts := []string{"---types---\nint#a8509bda ? = Int;\nstring#b5286e24 ? = String;\n"}
	var fns []string
	customs := []string{"alpha", "beta", "gamma", "delta"}
	for i, t := range us {
		nf := r.IntN(4)
		var fields []string
		for j := 0; j < nf; j++ {
			ft := []string{"int", "string"}[r.IntN(2)]
			if i > 0 && r.IntN(3) == 0 {
				if k := r.IntN(i); mask&(1<<k) != 0 {
					ft = full(us[k], true)
				}
			}
			fields = append(fields, fmt.Sprintf("f%d:%s", j, ft))
		}
		wantFn := r.IntN(3) == 0
		if mask&(1<<i) == 0 {
			continue
		}
		parts = append(parts, fmt.Sprintf("---types---\n%s %s = %s;\n", full(t, false), strings.Join(fields, " "), full(t, true)))
		if wantFn || annotate {
			fn := ty{ns: t.ns, name: "get" + strings.ToUpper(t.name[:1]) + t.name[1:]}
			ann := "@any"
			if annotate {
				ann = "@" + customs[(i+int(seed%4))%4] + " @" + customs[(i+1+int(seed%3))%4] + " @any"
				if i%3 == 0 {
					ann = "@" + customs[i%4] + " @read"
				}
			}
			fns = append(fns, fmt.Sprintf("---functions---\n%s %s q:int = %s;\n", ann, full(fn, false), full(t, true)))
		}
	}
	return append(parts, fns...)
}

// resolved returns the triple with its inputs in place: synthetic schemas are written to the scratch directory.
func (g *genCtx) resolved(t genTriple, seed uint64, mask uint8) genTriple {
	if !t.Synth {
		return t
	}
	path := filepath.Join(g.dir, fmt.Sprintf("synth-%016x-%02x.tl", seed, mask))
	if t.SynthFiles {
		path = filepath.Join(g.dir, fmt.Sprintf("synthdir-%016x-%02x", seed, mask))
		if _, err := os.Stat(path); err != nil {
			_ = os.MkdirAll(filepath.Join(path, "sub"), 0o755)
			for i, part := range synthSchemaParts(seed, mask|0x7f, t.SynthAnnotate) {
				name := filepath.Join(path, fmt.Sprintf("f%02d.tl", (i*7)%23))
				if i%4 == 3 {
					name = filepath.Join(path, "sub", fmt.Sprintf("g%02d.tl", i))
				}
				_ = os.WriteFile(name, []byte(part), 0o644)
			}
		}
	} else if _, err := os.Stat(path); err != nil {
		_ = os.WriteFile(path, []byte(strings.Join(synthSchemaParts(seed, mask, t.SynthAnnotate), "")), 0o644)
	}
	// generation children run with the scratch directory as working directory and get the schema by its relative
	// name: outputs that quote their source path (canonical form, tlo) then do not depend on the scratch name
	t.Inputs = []string{filepath.Base(path)}
	t.Base = t.Name
	t.Name = fmt.Sprintf("%s[%016x/%02x]", t.Name, seed, mask)
	return t
}

const tlsDir = "/repo/internal/tlcodegen/test/tls/"
// xsDir: the harness's own extra schema sets (import cycles, same-named files in several input directories)
var xsDir = func() string {
	if d := os.Getenv("VERIF_DIR"); d != "" {
		return d + "/harness/gen/schemas/"
	}
	return "/verif/harness/gen/schemas/"
}()

func triples() []genTriple {
	goBase := []string{"--language=go", "--copyrightPath=/repo/COPYRIGHT", "--basicPkgPath=github.com/VKCOM/tl/pkg/basictl", "--basicRPCPath=github.com/VKCOM/tl/pkg/rpc"}
	gm := []string{tlsDir + "goldmaster.tl", tlsDir + "goldmaster2.tl", tlsDir + "goldmaster3.tl"}
	ts := []genTriple{
		{Name: "go-cases", Tool: "tl2gen", Args: append(append([]string{}, goBase...), "--pkgPath=github.com/VKCOM/tl/x/cases/tl", "--generateRPCCode", "--generateByteVersions=cases_bytes.", "--generateRandomCode", "--checkLengthSanity=false"), Inputs: []string{tlsDir + "cases.tl"}, Marker: "meta/meta.go"},
		{Name: "go-cases-tl2", Tool: "tl2gen", Args: append(append([]string{}, goBase...), "--tl2WhiteList=*", "--pkgPath=github.com/VKCOM/tl/x/cases/tl", "--generateRPCCode", "--generateByteVersions=cases_bytes.", "--generateRandomCode"), Inputs: []string{tlsDir + "cases.tl"}, Marker: "meta/meta.go"},
		{Name: "go-goldmaster-split", Tool: "tl2gen", Args: append(append([]string{}, goBase...), "--split-internal", "--tl2WhiteList=*", "--schemaTimestamp=301822800", "--schemaCommit=abcdefgh", "--pkgPath=github.com/VKCOM/tl/x/gm/tl", "--generateRPCCode", "--generateByteVersions=ch_proxy.,ab.", "--generateRandomCode", "--checkLengthSanity=false"), Inputs: gm, Marker: "meta/meta.go"},
		{Name: "go-schema-split", Tool: "tl2gen", Args: append(append([]string{}, goBase...), "--split-internal", "--pkgPath=github.com/VKCOM/tl/x/schema/tl", "--generateByteVersions=ch_proxy.,ab."), Inputs: []string{tlsDir + "schema.tl"}, Marker: "meta/meta.go"},
		{Name: "go-bootstrap-nobasic", Tool: "tl2gen", Args: []string{"--language=go", "--copyrightPath=/repo/COPYRIGHT", "--pkgPath=github.com/VKCOM/tl/x/tlo/tl"}, Inputs: []string{"/repo/internal/tlast/tls.tl"}, Marker: "meta/meta.go"},
		{Name: "go-cycles-split", Tool: "tl2gen", Args: append(append([]string{}, goBase...), "--split-internal", "--pkgPath=github.com/VKCOM/tl/x/cyc/tl", "--generateRandomCode"), Inputs: []string{xsDir + "cycles.tl"}, Marker: "meta/meta.go"},
		{Name: "go-cycles-split-bytes", Tool: "tl2gen", Args: append(append([]string{}, goBase...), "--split-internal", "--pkgPath=github.com/VKCOM/tl/x/cyc/tl", "--generateByteVersions=*"), Inputs: []string{xsDir + "cycles.tl"}, Marker: "meta/meta.go"},
		// templates instantiated several times under external and local fields masks, a union over instantiations
		{Name: "go-masks", Tool: "tl2gen", Args: append(append([]string{}, goBase...), "--pkgPath=github.com/VKCOM/tl/x/masks/tl", "--generateRPCCode", "--generateRandomCode"), Inputs: []string{xsDir + "masks.tl"}, Marker: "meta/meta.go"},
		{Name: "go-masks-split-bytes", Tool: "tl2gen", Args: append(append([]string{}, goBase...), "--split-internal", "--pkgPath=github.com/VKCOM/tl/x/masks/tl", "--generateByteVersions=*"), Inputs: []string{xsDir + "masks.tl"}, Marker: "meta/meta.go"},
		{Name: "php-masks", Tool: "tl2gen", Args: []string{"--language=php", "--php-rpc-support=true", "--php-serialization-bodies=true", "--php-generate-fetchers=true", "--php-generate-switcher=true", "--php-use-builtin-data-providers=true", "--php-add-type-comments=true", "--php-generate-fetchers-echo-comment=false"}, Inputs: []string{xsDir + "masks.tl"}, Marker: "VK/TL/RpcFunctionFetcher.php"},
		{Name: "cpp-masks", Tool: "tlgen", Args: []string{"-language=cpp", "--cpp-generate-meta=true", "--cpp-generate-factory=true"}, Inputs: []string{xsDir + "masks.tl"}, Marker: "tlgen2_version.txt"},
		// types whose names collide in the target language's identifiers (foo.bar / fooBar): instantiations over them are
		// told apart by suffixes, and the assignment of suffixes must not follow an iteration order
		{Name: "go-collide", Tool: "tl2gen", Args: append(append([]string{}, goBase...), "--pkgPath=github.com/VKCOM/tl/x/collide/tl", "--generateRPCCode", "--generateRandomCode"), Inputs: []string{xsDir + "collide.tl"}, Marker: "meta/meta.go"},
		{Name: "go-collide-split-bytes", Tool: "tl2gen", Args: append(append([]string{}, goBase...), "--split-internal", "--pkgPath=github.com/VKCOM/tl/x/collide/tl", "--generateByteVersions=*"), Inputs: []string{xsDir + "collide.tl"}, Marker: "meta/meta.go"},
		{Name: "go-dirs", Tool: "tl2gen", Args: append(append([]string{}, goBase...), "--pkgPath=github.com/VKCOM/tl/x/dirs/tl"), Inputs: []string{xsDir + "dirA", xsDir + "dirB", xsDir + "dirC"}, Marker: "meta/meta.go"},
		{Name: "canonical-dirs", Tool: "tl2gen", Args: []string{"--language=canonical"}, Inputs: []string{xsDir + "dirA", xsDir + "dirB", xsDir + "dirC"}, Outfile: "dirs_canonical.tl", NoDir: true},
		// the same file reachable through two roots with different spellings: rejected today in every order (the
		// combinators repeat); whatever a generator version makes of it must not depend on the order either
		{Name: "canonical-dirs-dup", Tool: "tl2gen", Args: []string{"--language=canonical"}, Inputs: []string{xsDir + "dirA", xsDir + "dirB/../dirA/types.tl", xsDir + "dirB", xsDir + "./dirC/types.tl"}, Outfile: "dirs_canonical.tl", NoDir: true},
		{Name: "tlo-dirs-dup", Tool: "tl2gen", Args: []string{"--language=tlo", "--schemaTimestamp=301822800"}, Inputs: []string{xsDir + "dirC", xsDir + "dirC/./types.tl", xsDir + "dirA", xsDir + "dirB"}, Outfile: "dirs.tlo", NoDir: true},
		{Name: "tlo-dirs", Tool: "tl2gen", Args: []string{"--language=tlo", "--schemaTimestamp=301822800"}, Inputs: []string{xsDir + "dirC", xsDir + "dirA", xsDir + "dirB"}, Outfile: "dirs.tlo", NoDir: true},
		{Name: "tlo-goldmaster", Tool: "tl2gen", Args: []string{"--language=tlo", "--schemaTimestamp=301822800"}, Inputs: gm, Outfile: "gm.tlo", NoDir: true},
		{Name: "canonical-goldmaster", Tool: "tl2gen", Args: []string{"--language=canonical"}, Inputs: gm, Outfile: "gm_canonical.tl", NoDir: true},
		{Name: "html-goldmaster", Tool: "tl2gen", Args: []string{"--language=tljson.html", "--schemaTimestamp=301822800", "--schemaCommit=abcdefgh", "--schemaURL=https://example.org/gm.tl"}, Inputs: gm, Outfile: "tljson.html", NoDir: true},
		{Name: "php-cases", Tool: "tl2gen", Args: []string{"--language=php", "--php-rpc-support=true", "--php-serialization-bodies=true", "--php-generate-fetchers=true", "--php-generate-switcher=true", "--php-use-builtin-data-providers=true", "--php-add-type-comments=true", "--php-generate-fetchers-echo-comment=false"}, Inputs: []string{tlsDir + "cases.tl"}, Marker: "VK/TL/RpcFunctionFetcher.php"},
		{Name: "cpp-cases", Tool: "tlgen", Args: []string{"-language=cpp", "--cpp-generate-meta=true", "--cpp-generate-factory=true"}, Inputs: []string{tlsDir + "cases.tl"}, Marker: "tlgen2_version.txt"},
		{Name: "cpp-cpp", Tool: "tlgen", Args: []string{"-language=cpp", "--cpp-generate-meta=true", "--cpp-generate-factory=true"}, Inputs: []string{tlsDir + "cpp.tl"}, Marker: "tlgen2_version.txt"},
		{Name: "cpp-goldmaster", Tool: "tlgen", Args: []string{"-language=cpp", "--cpp-generate-meta=true", "--cpp-generate-factory=true"}, Inputs: []string{tlsDir + "goldmaster.tl"}, Marker: "tlgen2_version.txt"},
		{Name: "php-legacy-cases", Tool: "tlgen", Args: []string{"--language=php", "--php-rpc-support=true", "--php-serialization-bodies=true", "--php-generate-fetchers=true", "--php-generate-switcher=true", "--php-use-builtin-data-providers=true", "--php-add-type-comments=true", "--php-generate-fetchers-echo-comment=false", "--php-serialization-bodies-whitelist="}, Inputs: []string{tlsDir + "cases.tl"}, Marker: "tlgen2_version.txt"},
		{Name: "cpp-cycles", Tool: "tlgen", Args: []string{"-language=cpp", "--cpp-generate-meta=true", "--cpp-generate-factory=true"}, Inputs: []string{xsDir + "cycles.tl"}, Marker: "tlgen2_version.txt"},
		{Name: "cpp-dirs", Tool: "tlgen", Args: []string{"-language=cpp"}, Inputs: []string{xsDir + "dirB", xsDir + "dirA", xsDir + "dirC"}, Marker: "tlgen2_version.txt"},
		{Name: "go-synth", Tool: "tl2gen", Synth: true, Args: append(append([]string{}, goBase...), "--pkgPath=github.com/VKCOM/tl/x/synth/tl", "--generateRPCCode", "--generateRandomCode"), Marker: "meta/meta.go"},
		{Name: "go-synth-split-bytes", Tool: "tl2gen", Synth: true, Args: append(append([]string{}, goBase...), "--split-internal", "--pkgPath=github.com/VKCOM/tl/x/synth/tl", "--generateByteVersions=*"), Marker: "meta/meta.go"},
		{Name: "php-synth", Tool: "tl2gen", Synth: true, Args: []string{"--language=php", "--php-rpc-support=true", "--php-serialization-bodies=true", "--php-generate-fetchers=true", "--php-generate-switcher=true", "--php-use-builtin-data-providers=true", "--php-add-type-comments=true", "--php-generate-fetchers-echo-comment=false"}, Marker: "VK/TL/RpcFunctionFetcher.php"},
		{Name: "cpp-synth", Tool: "tlgen", Synth: true, Args: []string{"-language=cpp", "--cpp-generate-meta=true", "--cpp-generate-factory=true"}, Marker: "tlgen2_version.txt"},
		{Name: "php-legacy-synth", Tool: "tlgen", Synth: true, Args: []string{"--language=php", "--php-rpc-support=true", "--php-serialization-bodies=true", "--php-generate-fetchers=true", "--php-generate-switcher=true", "--php-use-builtin-data-providers=true", "--php-add-type-comments=true", "--php-generate-fetchers-echo-comment=false", "--php-serialization-bodies-whitelist="}, Marker: "tlgen2_version.txt"},
		{Name: "canonical-synth-files", Tool: "tl2gen", Synth: true, SynthFiles: true, Args: []string{"--language=canonical"}, Outfile: "synth_canonical.tl", NoDir: true},
		{Name: "tlo-synth-files", Tool: "tl2gen", Synth: true, SynthFiles: true, Args: []string{"--language=tlo", "--schemaTimestamp=301822800"}, Outfile: "synth.tlo", NoDir: true},
		{Name: "go-synth-files", Tool: "tl2gen", Synth: true, SynthFiles: true, Args: append(append([]string{}, goBase...), "--pkgPath=github.com/VKCOM/tl/x/synthf/tl", "--generateRPCCode"), Marker: "meta/meta.go"},
		{Name: "go-synth-annotations", Tool: "tl2gen", Synth: true, SynthAnnotate: true, Args: append(append([]string{}, goBase...), "--pkgPath=github.com/VKCOM/tl/x/syntha/tl", "--generateRPCCode", "--annotations=alpha,beta,gamma,delta"), Marker: "meta/meta.go"},
		{Name: "cpp-synth-files", Tool: "tlgen", Synth: true, SynthFiles: true, Args: []string{"-language=cpp"}, Marker: "tlgen2_version.txt"},
		{Name: "tlo-legacy-cases", Tool: "tlgen", Args: []string{"--language=cpp"}, Inputs: []string{tlsDir + "cases.tl"}, Marker: "tlgen2_version.txt", Outfile: "+tlo"},
	}
	var out []genTriple
	for _, t := range ts {
		if t.Tool == verifTool {
			out = append(out, t)
		}
	}
	return out
}

type variant struct {
	MapPolicy int    `json:"map_policy"`
	NumCPU    int    `json:"num_cpu"`
	Strategy  int    `json:"strategy"`
	TapeSeed  uint64 `json:"tape_seed"`
	InputPerm []int  `json:"input_perm"`
	OverRef   bool   `json:"over_ref,omitempty"` // c15: generate over the reference output instead of into an empty directory
}

type histGen struct {
	Triple   int          `json:"triple"` // which triple's schema/options this generation uses
	Plant    []plantSpec  `json:"plant,omitempty"`
	Fault    *vrt.FSFault `json:"fault,omitempty"`
	Variant  variant      `json:"variant"`
	SchemaSeed uint64     `json:"schema_seed,omitempty"` // synthetic-schema triples
	SchemaMask uint8      `json:"schema_mask,omitempty"`
	// direct drive
	Files    map[string]string `json:"files,omitempty"`
}

type plantSpec struct {
	Path    string `json:"path"` // relative to the output directory
	Content string `json:"content"`
	DropMarker bool `json:"drop_marker,omitempty"` // remove the marker file instead of planting
	LinkTo  string `json:"link_to,omitempty"` // plant a symbolic link with this target instead of a file
}

// a directory next to the output directory that foreign symbolic links point into; nothing in it may ever change
const elsewhere = simRoot + "/work/elsewhere"

// nestedMarkerPlants: somebody else's tree that holds a marker file of ours only deeper down (the parent of an old
// output directory given as --outdir by mistake): no marker at the top level, so it must be refused untouched
func nestedMarkerPlants(marker string) []plantSpec {
	return []plantSpec{{Path: "README.md", Content: "a project, not generated code\n"}, {Path: "src/main.cpp", Content: "int main() {}\n"},
		{Path: "zz_old/gen/" + marker, Content: "marker of an earlier generation elsewhere"}, {Path: "zz_old/gen/" + filepath.Base(marker), Content: "same, by base name"}}
}

// dotPlants: a directory that is not ours and holds only hidden files (a fresh clone, an editor's settings)
func dotPlants(r *rand.Rand) []plantSpec {
	all := []plantSpec{{Path: ".gitkeep", Content: ""}, {Path: ".git/HEAD", Content: "ref: refs/heads/master\n"}, {Path: ".git/config", Content: "[core]\n"}, {Path: ".env", Content: "SECRET=1\n"}, {Path: ".idea/workspace.xml", Content: "<project/>"}}
	r.Shuffle(len(all), func(i, j int) { all[i], all[j] = all[j], all[i] })
	return all[:1+r.IntN(len(all))]
}

func linkPlant(r *rand.Rand) plantSpec {
	switch r.IntN(3) {
	case 0:
		return plantSpec{Path: "zz_linked_pkg", LinkTo: elsewhere + "/pkg"}
	case 1:
		return plantSpec{Path: "zz_linked_file.txt", LinkTo: elsewhere + "/pkg/keep1.txt"}
	}
	return plantSpec{Path: "zz_dangling", LinkTo: elsewhere + "/missing"}
}

type genScenario struct {
	Mode     string    `json:"mode"` // c15 | c16-direct | c16-real
	Triple   int       `json:"triple"`
	SchemaSeed uint64  `json:"schema_seed,omitempty"`
	SchemaMask uint8   `json:"schema_mask,omitempty"`
	Variants []variant `json:"variants"`
	History  []histGen `json:"history,omitempty"`
	OutdirLink bool    `json:"outdir_link,omitempty"` // the generator is given a symbolic link to the (existing, at first empty) output directory
	Enumerate bool     `json:"enumerate"` // c16-direct: every crash index and error kind at every mutating op of the last generation
}

type genEngine struct{}

func genVariant(r *rand.Rand, ninputs int) variant {
	v := variant{MapPolicy: 1 + r.IntN(2), NumCPU: 1 + r.IntN(8), Strategy: r.IntN(vrt.NumStrategies), TapeSeed: r.Uint64()}
	if ninputs > 1 {
		v.InputPerm = r.Perm(ninputs)
	}
	return v
}

// Large files are kept in scenarios and replay files as "@big:<size>:<position>:<version>" and expanded where they are
// written and where they are compared: <size> bytes of numbered lines, the byte at <position> replaced by the version
// digit, so that two versions of a file have the same length and differ in exactly one byte (head, middle or tail).
func expandContent(s string) string {
	var size, pos, ver int
	if n, _ := fmt.Sscanf(s, "@big:%d:%d:%d", &size, &pos, &ver); n != 3 {
		return s
	}
	var b strings.Builder
	for i := 0; b.Len() < size; i++ {
		fmt.Fprintf(&b, "// line %07d of a large generated file\n", i)
	}
	out := []byte(b.String()[:size])
	if pos >= 0 && pos < size {
		out[pos] = byte('0' + ver%10)
	}
	return string(out)
}

func expandFiles(files map[string]string) map[string]string {
	out := make(map[string]string, len(files))
	for k, v := range files {
		out[k] = expandContent(v)
	}
	return out
}

func synthFiles(r *rand.Rand, universe int, marker string) map[string]string {
	files := map[string]string{marker: "marker v" + fmt.Sprint(r.IntN(3))}
	n := r.IntN(universe + 1)
	for i := 0; i < n; i++ {
		k := r.IntN(universe)
		name := fmt.Sprintf("f%d.txt", k)
		switch k % 4 {
		case 1:
			name = fmt.Sprintf("pkg%d/f%d.h", k%3, k)
		case 2:
			name = fmt.Sprintf("pkg%d/sub/f%d.txt", k%2, k)
		case 3:
			name = fmt.Sprintf("deep/a/b/f%d.cpp", k)
		}
		files[name] = fmt.Sprintf("content of %s version %d\n\tindented\n", name, r.IntN(3))
	}
	if r.IntN(6) == 0 {
		files["../runtime/basictl_extra.txt"] = "runtime v" + fmt.Sprint(r.IntN(2)) // the generator's documented exception: paths starting with ..
	}
	return files
}

func (genEngine) Gen(seed uint64, params map[string]any) json.RawMessage {
	r := rand.New(rand.NewPCG(seed, 15))
	ts := triples()
	sc := genScenario{Mode: "c15"}
	if m, ok := params["mode"].(string); ok {
		sc.Mode = m
	}
	switch sc.Mode {
	case "c15":
		sc.Triple = r.IntN(len(ts))
		sc.SchemaSeed, sc.SchemaMask = r.Uint64(), uint8(1+r.IntN(255))
		n := 2
		for i := 0; i < n; i++ {
			v := genVariant(r, len(ts[sc.Triple].Inputs))
			v.OverRef = r.IntN(3) == 0
			sc.Variants = append(sc.Variants, v)
		}
	case "c16-direct":
		ng := 2 + r.IntN(5)
		for i := 0; i < ng; i++ {
			h := histGen{Variant: genVariant(r, 0), Files: synthFiles(r, 10, "meta/marker.txt")}
			if i == 0 && r.IntN(8) == 0 {
				h.Plant = append(h.Plant, dotPlants(r)...) // somebody else's directory that only holds hidden files
			} else if i == 0 && r.IntN(10) == 0 {
				h.Plant = append(h.Plant, nestedMarkerPlants("meta/marker.txt")...)
			}
			if i > 0 && r.IntN(3) == 0 {
				switch r.IntN(5) {
				case 4:
					h.Plant = append(h.Plant, linkPlant(r))
				case 0:
					h.Plant = append(h.Plant, plantSpec{Path: fmt.Sprintf("foreign%d.txt", r.IntN(3)), Content: "foreign"})
				case 1:
					h.Plant = append(h.Plant, plantSpec{Path: fmt.Sprintf("pkg0/nested/foreign%d.txt", r.IntN(3)), Content: "foreign nested"})
				case 2:
					h.Plant = append(h.Plant, plantSpec{DropMarker: true})
				case 3:
					h.Plant = append(h.Plant, plantSpec{Path: "emptydir/.", Content: ""})
				}
			}
			if params["faults"] != "none" && i > 0 && r.IntN(3) == 0 {
				h.Fault = &vrt.FSFault{Kind: []string{"eio", "enospc", "eacces", "torn", "crash"}[r.IntN(5)], AtOp: 1 + r.IntN(12)}
			}
			sc.History = append(sc.History, h)
		}
		if params["enumerate"] != true && r.IntN(16) == 0 { // (a large file costs about thirty small histories)
			// one large file through the whole history (size around the usual buffer and chunk sizes): its versions have
			// equal length and differ in one byte at the head, in the middle, at the very end or somewhere in the tail
			sizes := []int{4095, 4096, 4097, 32768, 65535, 65536, 65537, 70001, 98304, 131077}
			size, name := sizes[r.IntN(len(sizes))], fmt.Sprintf("pkg0/big%d.txt", r.IntN(2))
			for i := range sc.History {
				if r.IntN(5) != 0 {
					pos := []int{0, size / 2, size - 1, size - 1 - r.IntN(min(size, 70000))}[r.IntN(4)]
					sc.History[i].Files[name] = fmt.Sprintf("@big:%d:%d:%d", size, pos, r.IntN(3))
				}
			}
		}
		sc.Enumerate = params["enumerate"] == true
		sc.OutdirLink = !sc.Enumerate && r.IntN(8) == 0
	case "c16-real":
		// real generator histories: only triples that manage a directory
		var dirTriples []int
		for i, t := range ts {
			if !t.NoDir {
				dirTriples = append(dirTriples, i)
			}
		}
		ng := 2 + r.IntN(3)
		if params["enumerate"] == true {
			// real-generator fault enumeration is expensive (one OS process per faulted run): two generations of
			// the smallest triples
			sc.Enumerate = true
			ng = 2
			var small []int
			for _, i := range dirTriples {
				switch ts[i].Name {
				case "go-dirs", "go-bootstrap-nobasic", "cpp-dirs", "cpp-cpp", "go-synth", "cpp-synth":
					small = append(small, i)
				}
			}
			if len(small) > 0 {
				dirTriples = small
			}
		}
		var synthTriples []int
		for _, i := range dirTriples {
			if ts[i].Synth {
				synthTriples = append(synthTriples, i)
			}
		}
		for i := 0; i < ng; i++ {
			ti := dirTriples[r.IntN(len(dirTriples))]
			if len(synthTriples) > 0 && r.IntN(2) == 0 {
				// small synthetic schemas generate in a fraction of the time: half of the histories use them
				ti = synthTriples[r.IntN(len(synthTriples))]
			}
			if i > 0 && r.IntN(2) == 0 {
				ti = sc.History[i-1].Triple // regenerate the same (or, for synthetic schemas, the next version of the same family)
			}
			h := histGen{Triple: ti, Variant: genVariant(r, len(ts[ti].Inputs))}
			if i == 0 && r.IntN(8) == 0 && params["enumerate"] != true {
				h.Plant = append(h.Plant, dotPlants(r)...)
			} else if i == 0 && r.IntN(8) == 0 && params["enumerate"] != true {
				h.Plant = append(h.Plant, nestedMarkerPlants(ts[ti].Marker)...)
			}
			if ts[ti].Synth {
				h.SchemaSeed, h.SchemaMask = r.Uint64(), uint8(1+r.IntN(255))
				if i > 0 && sc.History[i-1].Triple == ti {
					// the same schema family evolves: some types disappear, some appear (or nothing changes)
					h.SchemaSeed = sc.History[i-1].SchemaSeed
					switch r.IntN(3) {
					case 0:
						h.SchemaMask = sc.History[i-1].SchemaMask
					case 1:
						h.SchemaMask = sc.History[i-1].SchemaMask ^ uint8(1<<r.IntN(8))
					case 2:
						h.SchemaMask = sc.History[i-1].SchemaMask & uint8(r.IntN(256)) // several types disappear at once
					}
					if h.SchemaMask == 0 {
						h.SchemaMask = 1
					}
				}
			}
			if i > 0 && r.IntN(3) == 0 {
				switch r.IntN(4) {
				case 3:
					h.Plant = append(h.Plant, linkPlant(r))
				case 0:
					h.Plant = append(h.Plant, plantSpec{Path: "foreign.txt", Content: "foreign"})
				case 1:
					h.Plant = append(h.Plant, plantSpec{Path: "internal/zz/foreign.go", Content: "package zz"})
				case 2:
					h.Plant = append(h.Plant, plantSpec{DropMarker: true})
				}
			}
			if params["faults"] != "none" && params["enumerate"] != true && i > 0 && r.IntN(3) == 0 {
				h.Fault = &vrt.FSFault{Kind: []string{"eio", "enospc", "eacces", "torn", "crash"}[r.IntN(5)], AtOp: 1 + r.IntN(60)}
			}
			sc.History = append(sc.History, h)
		}
		sc.OutdirLink = params["enumerate"] != true && r.IntN(6) == 0
	}
	b, _ := json.Marshal(sc)
	return b
}

func (genEngine) Shrink(raw json.RawMessage) []json.RawMessage {
	var sc genScenario
	if json.Unmarshal(raw, &sc) != nil {
		return nil
	}
	var out []json.RawMessage
	emit := func(c genScenario) {
		b, _ := json.Marshal(c)
		out = append(out, b)
	}
	if len(sc.Variants) > 1 {
		for i := range sc.Variants {
			c := sc
			c.Variants = append(append([]variant{}, sc.Variants[:i]...), sc.Variants[i+1:]...)
			emit(c)
		}
	}
	for i := range sc.Variants {
		v := sc.Variants[i]
		if v.NumCPU > 1 || v.InputPerm != nil || v.Strategy != 0 {
			c := sc
			c.Variants = append([]variant{}, sc.Variants...)
			c.Variants[i].NumCPU, c.Variants[i].InputPerm, c.Variants[i].Strategy = 1, nil, 0
			emit(c)
		}
	}
	if len(sc.History) > 1 {
		for i := range sc.History {
			c := sc
			c.History = append(append([]histGen{}, sc.History[:i]...), sc.History[i+1:]...)
			emit(c)
		}
	}
	for i, h := range sc.History {
		if h.Fault != nil || len(h.Plant) > 0 {
			c := sc
			c.History = append([]histGen{}, sc.History...)
			c.History[i].Fault, c.History[i].Plant = nil, nil
			emit(c)
		}
		if len(h.Files) > 1 {
			keys := make([]string, 0, len(h.Files))
			for k := range h.Files {
				keys = append(keys, k)
			}
			sort.Strings(keys)
			for _, k := range keys {
				if strings.Contains(k, "marker") {
					continue
				}
				c := sc
				c.History = append([]histGen{}, sc.History...)
				nf := map[string]string{}
				for kk, vv := range h.Files {
					if kk != k {
						nf[kk] = vv
					}
				}
				c.History[i].Files = nf
				emit(c)
			}
		}
	}
	return out
}

type genCtx struct {
	t       *testing.T
	dir     string // scratch directory for job/disk/result files
	n       int
	probes  map[string]int
	steps   int
	children int
	inproc  int
	lastOps int // mutating operations of the most recent generation
	fresh   map[string]map[string][]byte // per triple: the tree of a fresh generation into an empty directory (cached within one evaluation)
}

func (g *genCtx) child(job genJob) (genResult, error) {
	if job.Direct != nil {
		// OutDir.Write has no package state: the direct-drive histories stay in this process
		g.inproc++
		res := runGenJob(g.t, job)
		g.steps += res.Steps
		for k, v := range res.Stats {
			g.probes[k] += v
		}
		for k, v := range res.FaultFired {
			g.probes["fault.disk_"+k] += v
		}
		return res, nil
	}
	g.n++
	g.children++
	jobPath := filepath.Join(g.dir, fmt.Sprintf("job%d.json", g.n))
	job.ResultOut = filepath.Join(g.dir, fmt.Sprintf("res%d.json", g.n))
	b, _ := json.Marshal(job)
	if err := os.WriteFile(jobPath, b, 0o644); err != nil {
		return genResult{}, err
	}
	cmd := exec.Command(os.Args[0], "-test.run", "^TestVerifGenChild$", "-test.count", "1", "-test.cpu", "1", "-test.timeout", "20m")
	cmd.Env = append(os.Environ(), "VERIF_GEN_JOB="+jobPath, "VERIF_WORKER=")
	cmd.Dir = g.dir
	outb, err := cmd.CombinedOutput()
	rb, rerr := os.ReadFile(job.ResultOut)
	if rerr != nil {
		return genResult{}, fmt.Errorf("generation child produced no result (%v): %s", err, tail(string(outb), 30))
	}
	var res genResult
	if err := json.Unmarshal(rb, &res); err != nil {
		return genResult{}, err
	}
	g.steps += res.Steps
	for k, v := range res.Stats {
		g.probes[k] += v
	}
	for k, v := range res.FaultFired {
		g.probes["fault.disk_"+k] += v
	}
	_ = os.Remove(jobPath)
	_ = os.Remove(job.ResultOut)
	return res, nil
}

func tail(s string, n int) string {
	ls := strings.Split(strings.TrimRight(s, "\n"), "\n")
	if len(ls) > n {
		ls = ls[len(ls)-n:]
	}
	return strings.Join(ls, "\n")
}

func loadTree(path string) (map[string][]byte, []string, error) {
	b, err := os.ReadFile(path)
	if err != nil {
		return nil, nil, err
	}
	d, err := vrt.LoadSimFS(b)
	if err != nil {
		return nil, nil, err
	}
	return d.Tree(), d.DirList(), nil
}

func treeHash(tree map[string][]byte) string {
	keys := make([]string, 0, len(tree))
	for k := range tree {
		keys = append(keys, k)
	}
	sort.Strings(keys)
	h := sha256.New()
	for _, k := range keys {
		fmt.Fprintf(h, "%s %d\n", k, len(tree[k]))
		h.Write(tree[k])
	}
	return hex.EncodeToString(h.Sum(nil))[:16]
}

func diffTrees(a, b map[string][]byte) string {
	var keys []string
	for k := range a {
		keys = append(keys, k)
	}
	for k := range b {
		if _, ok := a[k]; !ok {
			keys = append(keys, k)
		}
	}
	sort.Strings(keys)
	for _, k := range keys {
		x, okx := a[k]
		y, oky := b[k]
		switch {
		case !okx:
			return fmt.Sprintf("file %s exists only in the second output (%d files vs %d)", k, len(a), len(b))
		case !oky:
			return fmt.Sprintf("file %s exists only in the first output (%d files vs %d)", k, len(a), len(b))
		case !bytes.Equal(x, y):
			off := 0
			for off < len(x) && off < len(y) && x[off] == y[off] {
				off++
			}
			lo := max(0, off-40)
			return fmt.Sprintf("file %s differs at byte offset %d (lengths %d / %d): ...%q... vs ...%q...", k, off, len(x), len(y), x[lo:min(len(x), off+40)], y[lo:min(len(y), off+40)])
		}
	}
	return ""
}

func (t genTriple) baseName() string {
	if t.Base != "" {
		return t.Base
	}
	return t.Name
}

func (t genTriple) argsFor(outdir string, v variant) []string {
	args := append([]string{}, t.Args...)
	if t.Outfile == "+tlo" {
		// explicitly named single-file outputs live next to, not inside, the managed output directory
		aux := filepath.Join(filepath.Dir(outdir), "aux")
		args = append(args, "--outdir="+outdir, "--tloPath="+aux+"/schema.tlo", "--canonicalFormPath="+aux+"/canonical.tl", "--schemaTimestamp=301822800")
	} else if t.NoDir {
		args = append(args, "--outfile="+filepath.Join(outdir, t.Outfile))
	} else {
		args = append(args, "--outdir="+outdir)
	}
	inputs := t.Inputs
	if len(v.InputPerm) == len(inputs) {
		p := make([]string, len(inputs))
		for i, j := range v.InputPerm {
			p[i] = inputs[j]
		}
		inputs = p
	}
	return append(args, inputs...)
}

func emptyDisk(dirs ...string) []byte {
	d := vrt.NewSimFS(simRoot)
	// locations the generators address outside the output directory and expect to exist: the runtime
	// library derived from --pkgPath when --basicPkgPath is not given (outdir/../../pkg/basictl), the
	// synthetic "../runtime" of the direct-drive histories, and explicitly named single-file outputs
	d.PlantDir(simRoot + "/pkg/basictl")
	d.PlantDir(simRoot + "/work/runtime")
	d.PlantDir(simRoot + "/work/aux")
	for _, x := range dirs {
		d.PlantDir(x)
	}
	return d.Snapshot()
}

func (genEngine) Exec(t *testing.T, raw json.RawMessage, tape *vrt.Tape, keepLog bool) (out vrt.RunOut) {
	var sc genScenario
	if err := json.Unmarshal(raw, &sc); err != nil {
		out.Violations = []vrt.Violation{{Class: "machinery", Msg: err.Error()}}
		return
	}
	dir, err := os.MkdirTemp("", "tlsim-gen-")
	if err != nil {
		out.Violations = []vrt.Violation{{Class: "machinery", Msg: err.Error()}}
		return
	}
	defer os.RemoveAll(dir)
	g := &genCtx{t: t, dir: dir, probes: map[string]int{}}
	out.Probes = g.probes
	out.Outcome = "done"
	h := sha256.New()
	logf := func(format string, a ...any) {
		line := fmt.Sprintf(format, a...)
		fmt.Fprintln(h, line)
		if keepLog {
			out.Log = append(out.Log, line)
		}
	}
	fail := func(class, msg string) {
		out.Violations = append(out.Violations, vrt.Violation{Class: class, Msg: msg})
		out.Outcome = "violation"
		logf("VIOLATION %s", class)
	}
	switch sc.Mode {
	case "c15":
		execC15(g, sc, logf, fail, &out)
	case "c16-direct":
		execC16(g, sc, true, logf, fail, &out)
	case "c16-real":
		execC16(g, sc, false, logf, fail, &out)
	}
	out.Steps = g.steps
	out.LogHash = hex.EncodeToString(h.Sum(nil))
	if out.SchedSig == "" {
		out.SchedSig = out.LogHash[:16]
	}
	out.Probes["probe.generation_processes"] += g.children
	out.Probes["probe.direct_writer_runs_in_process"] += g.inproc
	return out
}

func execC15(g *genCtx, sc genScenario, logf func(string, ...any), fail func(string, string), out *vrt.RunOut) {
	tr := g.resolved(triples()[sc.Triple], sc.SchemaSeed, sc.SchemaMask)
	outdir := simRoot + "/work/out"
	base := filepath.Join(g.dir, "empty.disk")
	_ = os.WriteFile(base, emptyDisk(simRoot+"/work"), 0o644)
	if tr.NoDir {
		_ = os.WriteFile(base, emptyDisk(outdir), 0o644)
	}
	// reference run: ascending map order, pool width 1, lowest-id schedule, inputs as given
	refDisk := filepath.Join(g.dir, "ref.disk")
	ref, err := g.child(genJob{Args: tr.argsFor(outdir, variant{}), MapPolicy: vrt.MapAscending, NumCPU: 1, Strategy: vrt.StratRunUntilBlocked, Tape: []uint32{}, DiskIn: base, DiskOut: refDisk})
	if err != nil {
		fail("machinery", err.Error())
		return
	}
	if ref.Err != "" || ref.Outcome != "done" {
		// the generator rejects or cannot handle this triple: not a determinism question (C14 territory)
		g.probes["probe.reference_generation_failed"]++
		g.probes["probe.reference_generation_failed."+tr.baseName()]++
		logf("reference failed: %s", ref.Err)
		out.Sample = map[string]any{"triple": tr.Name, "reference_error": ref.Err}
		// ... except that the rejection itself must not depend on order or schedule either
		if len(sc.Variants) > 0 && ref.Outcome == "done" {
			v := sc.Variants[0]
			res, err := g.child(genJob{Args: tr.argsFor(outdir, v), MapPolicy: v.MapPolicy, NumCPU: v.NumCPU, Strategy: v.Strategy, TapeSeed: v.TapeSeed, DiskIn: base, DiskOut: filepath.Join(g.dir, "var0.disk")})
			if err != nil {
				fail("machinery", err.Error())
				return
			}
			if res.Err == "" && res.Outcome == "done" {
				fail("C15/outcome-differs", fmt.Sprintf("%s: the reference generation was rejected (%s) but variant %+v succeeded", tr.Name, tail(ref.Err, 2), v))
				return
			}
			g.probes["probe.c15_rejections_compared"]++
			out.Nontrivial = true
		}
		return
	}
	refTree, _, err := loadTree(refDisk)
	if err != nil {
		fail("machinery", err.Error())
		return
	}
	out.Progress = len(refTree) > 0
	logf("reference %s files=%d hash=%s", tr.Name, len(refTree), treeHash(refTree))
	if len(ref.Escapes) > 0 {
		fail("C16/write-outside-output-directory", fmt.Sprintf("%s: generation attempted %v outside %s", tr.Name, ref.Escapes, simRoot))
		return
	}
	for i, v := range sc.Variants {
		vd := filepath.Join(g.dir, fmt.Sprintf("var%d.disk", i))
		in := base
		if v.OverRef && !tr.NoDir {
			// regenerating over the previous output of the same triple is the everyday case: same bytes again
			in = refDisk
			g.probes["probe.c15_variant_over_previous_output"]++
		}
		res, err := g.child(genJob{Args: tr.argsFor(outdir, v), MapPolicy: v.MapPolicy, NumCPU: v.NumCPU, Strategy: v.Strategy, TapeSeed: v.TapeSeed, DiskIn: in, DiskOut: vd})
		if err != nil {
			fail("machinery", err.Error())
			return
		}
		if res.Err != "" || res.Outcome != "done" {
			fail("C15/outcome-differs", fmt.Sprintf("%s: the reference generation succeeded but variant %+v failed: %s (outcome %s)", tr.Name, v, res.Err, res.Outcome))
			return
		}
		tree, _, err := loadTree(vd)
		if err != nil {
			fail("machinery", err.Error())
			return
		}
		logf("variant %d map=%d cpu=%d perm=%v files=%d hash=%s", i, v.MapPolicy, v.NumCPU, v.InputPerm, len(tree), treeHash(tree))
		if d := diffTrees(refTree, tree); d != "" {
			fail("C15/output-differs", fmt.Sprintf("%s: output under map order policy %d, writer pool width %d, input order %v differs from the reference (ascending order, width 1; over previous output: %v): %s", tr.Name, v.MapPolicy, v.NumCPU, v.InputPerm, v.OverRef, d))
			return
		}
		out.Nontrivial = true
		g.probes["probe.c15_variant_outputs_compared"]++
		g.probes["probe.c15_compared."+tr.baseName()]++
		g.probes["probe.c15_files_compared"] += len(tree)
		_ = os.Remove(vd)
	}
	out.Sample = map[string]any{"triple": tr.Name, "files": len(refTree), "tree_hash": treeHash(refTree), "variants": sc.Variants}
}

// execC16 runs a history of generations into one directory and checks it against a path->content model.
func execC16(g *genCtx, sc genScenario, direct bool, logf func(string, ...any), fail func(string, string), out *vrt.RunOut) {
	outdir := simRoot + "/work/out"
	disk := filepath.Join(g.dir, "hist.disk")
	// the runtime-library directory (addressed by the generator with a leading "..") exists beforehand, as the writer expects
	{
		d, _ := vrt.LoadSimFS(emptyDisk(simRoot+"/work", simRoot+"/work/runtime"))
		d.Plant(elsewhere+"/pkg/keep1.txt", []byte("not part of any generation 1"))
		d.Plant(elsewhere+"/pkg/sub/keep2.txt", []byte("not part of any generation 2"))
		d.Plant(elsewhere+"/pkg/meta/marker.txt", []byte("a marker of somebody else"))
		if sc.OutdirLink {
			d.PlantDir(outdir)
			d.PlantLink(simRoot+"/work/outlink", outdir)
			g.probes["probe.c16_output_directory_given_as_symlink"]++
		}
		_ = os.WriteFile(disk, d.Snapshot(), 0o644)
	}
	// what the generator is told; the oracles look at the resolved location (the disk's operation log and tree hold resolved paths)
	genOutdir := outdir
	if sc.OutdirLink {
		genOutdir = simRoot + "/work/outlink"
	}
	ts := triples()
	prefix := outdir + "/"
	allowedOutside := func(p string) bool { // the runtime library location: paths the generator addresses with a leading ".."
		return strings.HasPrefix(p, simRoot+"/work/runtime/") || strings.HasPrefix(p, simRoot+"/pkg/basictl/") || strings.HasPrefix(p, simRoot+"/work/aux/")
	}
	for gi, hg := range sc.History {
		marker := "meta/marker.txt"
		var tr genTriple
		if !direct {
			tr = g.resolved(ts[hg.Triple], hg.SchemaSeed, hg.SchemaMask)
			marker = tr.Marker
		}
		// plant foreign files / drop the marker
		before, beforeDirs, err := loadTree(disk)
		if err != nil {
			fail("machinery", err.Error())
			return
		}
		if len(hg.Plant) > 0 {
			b, _ := os.ReadFile(disk)
			d, _ := vrt.LoadSimFS(b)
			for _, p := range hg.Plant {
				if p.DropMarker {
					d.Unplant(prefix + marker)
					g.probes["fault.marker_removed"]++
					continue
				}
				if p.LinkTo != "" {
					d.PlantLink(prefix+p.Path, p.LinkTo)
					g.probes["fault.foreign_symlink_planted"]++
					continue
				}
				if strings.HasSuffix(p.Path, "/.") {
					d.PlantDir(prefix + strings.TrimSuffix(p.Path, "/."))
					continue
				}
				d.Plant(prefix+p.Path, []byte(p.Content))
				g.probes["fault.foreign_file_planted"]++
			}
			_ = os.WriteFile(disk, d.Snapshot(), 0o644)
			before, beforeDirs, _ = loadTree(disk)
		}
		_ = beforeDirs
		job := genJob{MapPolicy: hg.Variant.MapPolicy, NumCPU: hg.Variant.NumCPU, Strategy: hg.Variant.Strategy, TapeSeed: hg.Variant.TapeSeed, Fault: hg.Fault, DiskIn: disk, DiskOut: disk + ".new"}
		if direct {
			job.Direct = &directJob{Outdir: genOutdir, Files: hg.Files, Marker: marker}
		} else {
			job.Args = tr.argsFor(genOutdir, hg.Variant)
		}
		res, err := g.child(job)
		if err != nil {
			fail("machinery", err.Error())
			return
		}
		if res.Outcome != "done" {
			fail("machinery", fmt.Sprintf("generation %d ended with outcome %s %v", gi, res.Outcome, res.Violations))
			return
		}
		g.lastOps = len(res.Ops)
		after, _, err := loadTree(disk + ".new")
		if err != nil {
			fail("machinery", err.Error())
			return
		}
		_ = os.Rename(disk+".new", disk)
		logf("gen %d err=%q ops=%d files %d -> %d hash=%s", gi, res.Err, len(res.Ops), len(before), len(after), treeHash(after))
		// nothing outside the output directory, except the runtime library location
		if len(res.Escapes) > 0 {
			fail("C16/write-outside-output-directory", fmt.Sprintf("generation %d attempted %v outside the simulated disk", gi, res.Escapes))
			return
		}
		for _, op := range res.Ops {
			if op.Err == "" && !strings.HasPrefix(op.Path, prefix) && op.Path != outdir && !allowedOutside(op.Path) {
				fail("C16/write-outside-output-directory", fmt.Sprintf("generation %d performed %s %s outside the output directory %s", gi, op.Op, op.Path, outdir))
				return
			}
		}
		// ... and, by state: every file that lived outside the output directory is still there, unchanged
		for k, v := range before {
			if strings.HasPrefix(k, prefix) || allowedOutside(k) {
				continue
			}
			if nv, ok := after[k]; !ok || !bytes.Equal(nv, v) {
				fail("C16/write-outside-output-directory", fmt.Sprintf("generation %d changed or removed %s, which is outside the output directory %s (present afterwards: %v)", gi, k, outdir, ok))
				return
			}
		}
		for k := range after {
			if _, was := before[k]; !was && !strings.HasPrefix(k, prefix) && !allowedOutside(k) {
				fail("C16/write-outside-output-directory", fmt.Sprintf("generation %d created %s outside the output directory %s", gi, k, outdir))
				return
			}
		}
		inDir := func(tree map[string][]byte) map[string][]byte {
			m := map[string][]byte{}
			for k, v := range tree {
				if strings.HasPrefix(k, prefix) {
					m[strings.TrimPrefix(k, prefix)] = v
				}
			}
			return m
		}
		beforeIn, afterIn := inDir(before), inDir(after)
		_, hadMarker := beforeIn[marker]
		refused := len(beforeIn) > 0 && !hadMarker
		faultFired := len(res.FaultFired) > 0
		switch {
		case refused:
			// a non-empty directory without the marker must be refused and left unmodified
			g.probes["probe.c16_refused_without_marker"]++
			if res.Err == "" {
				fail("C16/unmarked-directory-not-refused", fmt.Sprintf("generation %d succeeded into a non-empty directory (%d files) that has no marker file %s", gi, len(beforeIn), marker))
				return
			}
			nmut := 0
			for _, op := range res.Ops {
				if op.Err == "" && op.Path != outdir {
					nmut++
				}
			}
			if d := diffTrees(inDir(before), afterIn); d != "" || nmut > 0 {
				fail("C16/unmarked-directory-modified", fmt.Sprintf("generation %d was refused (no marker) but changed the directory (%d mutating operations): %s", gi, nmut, d))
				return
			}
			continue
		case res.Err != "":
			if !faultFired {
				if direct {
					fail("C16/generation-failed", fmt.Sprintf("generation %d failed without any injected fault: %s", gi, res.Err))
					return
				}
				g.probes["probe.real_generation_rejected"]++
				continue
			}
			// failed under an injected fault: any mixture of old and new whole files of these two generations
			// (a torn write may leave a prefix), never anything else
			g.probes["probe.c16_generation_failed_under_fault"]++
			if direct {
				for k, v := range afterIn {
					oldv, inOld := beforeIn[k]
					newv, inNew := hg.Files[k]
					newv = expandContent(newv)
					okOld := inOld && bytes.Equal(oldv, v)
					okNew := inNew && (normalised(k, newv) == string(v))
					okTorn := inNew && hg.Fault != nil && hg.Fault.Kind == "torn" && strings.HasPrefix(normalised(k, newv), string(v))
					if !okOld && !okNew && !okTorn {
						fail("C16/garbage-after-failed-generation", fmt.Sprintf("after failed generation %d file %s holds content that is neither its old nor its new version (%d bytes)", gi, k, len(v)))
						return
					}
				}
			}
			continue
		}
		// successful generation: the directory contains exactly this generation's files
		g.probes["probe.c16_successful_generations"]++
		if tr.Synth {
			g.probes["probe.c16_successful_generations_synthetic_schema"]++
		}
		if direct {
			want := map[string][]byte{}
			for k, v := range hg.Files {
				if strings.HasPrefix(k, "..") {
					continue
				}
				want[k] = []byte(normalised(k, expandContent(v)))
			}
			if d := diffTrees(want, afterIn); d != "" {
				fail("C16/directory-not-exact", fmt.Sprintf("after successful generation %d (fault fired: %v) the output directory differs from the generation's file set: %s", gi, res.FaultFired, d))
				return
			}
		} else {
			// the real generator: compare with a fresh generation of the same triple into an empty directory
			if g.fresh == nil {
				g.fresh = map[string]map[string][]byte{}
			}
			fin, cached := g.fresh[tr.Name]
			if !cached {
				freshDisk := filepath.Join(g.dir, "fresh.disk")
				base := filepath.Join(g.dir, "empty.disk")
				_ = os.WriteFile(base, emptyDisk(simRoot+"/work"), 0o644)
				fres, err := g.child(genJob{Args: tr.argsFor(outdir, variant{}), MapPolicy: vrt.MapAscending, NumCPU: 1, Strategy: vrt.StratRunUntilBlocked, Tape: []uint32{}, DiskIn: base, DiskOut: freshDisk})
				if err != nil || fres.Err != "" {
					fail("machinery", fmt.Sprintf("fresh reference generation failed: %v %s", err, fres.Err))
					return
				}
				ftree, _, _ := loadTree(freshDisk)
				fin = inDir(ftree)
				g.fresh[tr.Name] = fin
			}
			if tr.Tool == "tlgen" && strings.Contains(strings.Join(tr.Args, " "), "cpp") {
				for k := range afterIn { // documented exemption: the legacy C++ writer keeps *.o files
					if strings.HasSuffix(k, ".o") {
						delete(afterIn, k)
					}
				}
			}
			if d := diffTrees(fin, afterIn); d != "" {
				fail("C16/directory-not-exact", fmt.Sprintf("after successful generation %d of %s into an existing directory the directory differs from a fresh generation: %s", gi, tr.Name, d))
				return
			}
		}
		// unchanged files are not rewritten: zero write operations on them in this generation
		for _, op := range res.Ops {
			if op.Op != "write" || op.Err != "" || !strings.HasPrefix(op.Path, prefix) {
				continue
			}
			rel := strings.TrimPrefix(op.Path, prefix)
			if oldv, ok := beforeIn[rel]; ok && bytes.Equal(oldv, afterIn[rel]) {
				fail("C16/unchanged-file-rewritten", fmt.Sprintf("generation %d rewrote %s although its content did not change", gi, rel))
				return
			}
		}
		for k, v := range beforeIn {
			if bytes.Equal(v, afterIn[k]) {
				g.probes["probe.c16_unchanged_files_checked"]++
			}
			if _, still := afterIn[k]; !still {
				g.probes["probe.c16_stale_files_removed"]++
			}
		}
		out.Progress = true
		out.Nontrivial = out.Nontrivial || gi > 0
	}
	out.Sample = map[string]any{"mode": sc.Mode, "generations": len(sc.History), "history": summarise(sc)}
	if sc.Enumerate && len(out.Violations) == 0 {
		enumerateFaults(g, sc, direct, logf, fail, out)
	}
}

func summarise(sc genScenario) []string {
	var s []string
	ts := triples()
	for _, h := range sc.History {
		x := fmt.Sprintf("files=%d plant=%d", len(h.Files), len(h.Plant))
		if h.Files == nil {
			x = ts[h.Triple].Name + fmt.Sprintf(" plant=%d", len(h.Plant))
		}
		if h.Fault != nil {
			x += fmt.Sprintf(" fault=%s@%d", h.Fault.Kind, h.Fault.AtOp)
		}
		s = append(s, x)
	}
	return s
}

// normalised mirrors the writer's documented formatting step for non-Go files (tabs in .h/.cpp).
func normalised(name, code string) string {
	if strings.HasSuffix(name, ".h") || strings.HasSuffix(name, ".cpp") {
		return strings.ReplaceAll(code, "\t", "  ")
	}
	return code
}

// enumerateFaults: for the sampled history, re-run it with the LAST generation faulted at every
// mutating-operation index, for every fault kind, then one fault-free generation more: it must
// restore exactness or refuse for the missing marker, never succeed leaving stale files.
func enumerateFaults(g *genCtx, sc genScenario, direct bool, logf func(string, ...any), fail func(string, string), out *vrt.RunOut) {
	if len(sc.History) < 2 {
		return
	}
	last := len(sc.History) - 1
	probe := sc
	probe.Enumerate = false
	probe.History = append([]histGen{}, sc.History...)
	probe.History[last].Fault = nil
	// number of mutating operations of the fault-free last generation
	{
		var o vrt.RunOut
		o.Probes = map[string]int{}
		if g.fresh == nil {
			g.fresh = map[string]map[string][]byte{}
		}
		sub := &genCtx{t: g.t, dir: g.dir, probes: o.Probes, fresh: g.fresh}
		bad := false
		execC16(sub, probe, direct, func(string, ...any) {}, func(string, string) { bad = true }, &o)
		g.children += sub.children
		g.inproc += sub.inproc
		if bad {
			return
		}
		g.lastOps = sub.lastOps
	}
	nops := g.lastOps
	limit := 80
	if !direct {
		limit = 150
	}
	if nops == 0 || nops > limit {
		g.probes["probe.c16_enumeration_skipped"]++
		return
	}
	kinds := []string{"crash", "eio", "enospc", "eacces", "torn"}
	if !direct {
		kinds = []string{"crash", "enospc", "torn"} // one OS process per faulted run: the three kinds with different disk effects
	}
	for _, kind := range kinds {
		for k := 1; k <= nops; k++ {
			c := probe
			c.History = append([]histGen{}, probe.History...)
			c.History[last].Fault = &vrt.FSFault{Kind: kind, AtOp: k}
			// one more fault-free generation with the same files must end exact or be refused
			rec := c.History[last]
			rec.Fault, rec.Plant = nil, nil
			c.History = append(c.History, rec)
			var o vrt.RunOut
			o.Probes = g.probes
			nviol := len(out.Violations)
			execC16(g, c, direct, func(string, ...any) {}, func(class, msg string) {
				fail(class, fmt.Sprintf("[enumerated fault %s at mutating operation %d of generation %d] %s", kind, k, last, msg))
			}, &o)
			g.probes["probe.c16_enumerated_fault_runs"]++
			if len(out.Violations) > nviol {
				return
			}
		}
	}
	g.probes["probe.c16_histories_fully_enumerated"]++
	if !direct {
		g.probes["probe.c16_real_generator_histories_fully_enumerated"]++
	}
}

func TestVerifWorker(t *testing.T) { vrt.WorkerMain(t, genEngine{}) }
