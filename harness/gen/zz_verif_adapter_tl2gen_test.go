package main

import (
	"flag"
	"io"

	"github.com/VKCOM/tl/internal/puregen"
)

const verifTool = "tl2gen"

// verifGenerate runs what main() runs, with a private flag set (runMain reads flag.Args()).
func verifGenerate(args []string) error {
	flag.CommandLine = flag.NewFlagSet("tl2gen", flag.ContinueOnError)
	flag.CommandLine.SetOutput(io.Discard)
	opt := puregen.Options{ErrorWriter: io.Discard}
	opt.Bind(flag.CommandLine, languagesString())
	if err := flag.CommandLine.Parse(args); err != nil {
		return err
	}
	return runMain(&opt)
}

// verifDirectWrite drives the output stage alone with a synthetic file map.
func verifDirectWrite(outdir string, files map[string]string, marker string) error {
	var od puregen.OutDir
	for k, v := range files {
		if err := od.AddCodeFile(k, v); err != nil {
			return err
		}
	}
	opts := puregen.Options{Outdir: outdir, ErrorWriter: io.Discard}
	return od.Write(&opts, marker)
}
