package main

import (
	"errors"
	"flag"
	"io"
	"os"

	"github.com/VKCOM/tl/internal/tlcodegen"
)

const verifTool = "tlgen"

func verifGenerate(args []string) error {
	flag.CommandLine = flag.NewFlagSet("tlgen", flag.ContinueOnError)
	flag.CommandLine.SetOutput(io.Discard)
	saved := os.Args
	os.Args = append([]string{"tlgen"}, args...)
	defer func() { os.Args = saved }()
	var options tlcodegen.Gen2Options
	parseFlags(&options)
	options.ErrorWriter = io.Discard
	return runMain(&options)
}

func verifDirectWrite(outdir string, files map[string]string, marker string) error {
	return errors.New("direct drive of the legacy writer needs a full generator object; use real generations")
}
